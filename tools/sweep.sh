#!/bin/bash
# usage: sweep.sh tier seeds...
tier=$1; shift
cd /verif
for s in "$@"; do
  for c in C01 C02 C03 C04 C05 C06 C07 C08 C09 C10 C11 C12 C13 C14 C15 C16 C17 C18 C19; do
    out=$(VERIF_SEED=$s ./check $c --tier $tier --no-evidence 2>&1 | grep -E "^(HELD|VIOLATION|INCONCLUSIVE|violation mech)" | head -3 | tr '\n' ' ')
    echo "seed=$s $c $out"
  done
done
