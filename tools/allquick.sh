#!/bin/bash
cd /verif
for c in C01 C02 C03 C04 C05 C06 C07 C08 C09 C10 C11 C12 C13 C14 C15 C16 C17 C18 C19; do
  VERIF_SEED=${1:-0} ./check $c --tier quick --no-evidence 2>&1 | grep -E "^C[0-9]+ tier|^HELD|^VIOLATION|^INCONCL|harness errors|violation mech" | tr '\n' ' ' | cut -c1-400; echo
done
