"""Runner: shards the cases of one property over worker processes, aggregates
their observations, writes the evidence file and decides the verdict.

exit 0 = held (KNOWN-FINDING lines possible), 1 = VIOLATION, 3 = INCONCLUSIVE
"""
import argparse
import importlib
import json
import os
import subprocess
import sys
import tempfile
import time
import shutil
import hashlib

HERE = os.path.dirname(os.path.dirname(os.path.abspath(__file__)))
REPO = os.environ.get('RSOME_VERIF_REPO', '/repo')


def load_known():
    path = os.path.join(HERE, 'known_findings.json')
    if not os.path.exists(path):
        return []
    with open(path) as f:
        return json.load(f).get('findings', [])


def repo_state():
    try:
        head = subprocess.run(['git', '-C', REPO, 'rev-parse', 'HEAD'],
                              capture_output=True, text=True).stdout.strip()
    except Exception:
        head = 'unknown'
    h = hashlib.sha1()
    d = os.path.join(REPO, 'rsome')
    for name in sorted(os.listdir(d)):
        if name.endswith('.py'):
            with open(os.path.join(d, name), 'rb') as f:
                h.update(name.encode())
                h.update(f.read())
    return head, h.hexdigest()


def main():
    ap = argparse.ArgumentParser()
    ap.add_argument('pid')
    ap.add_argument('--tier', default=os.environ.get('VERIF_TIER', 'quick'))
    ap.add_argument('--replay', default=None)
    ap.add_argument('--cases', type=int, default=None)
    ap.add_argument('--workers', type=int, default=None)
    ap.add_argument('--no-evidence', action='store_true')
    args = ap.parse_args()

    pid = args.pid.upper()
    tier = args.tier if args.tier in ('quick', 'thorough') else 'quick'
    seed = int(os.environ.get('VERIF_SEED', '0') or 0)
    mod = importlib.import_module('rv.props.' + pid.lower())
    t0 = time.time()

    workdir = tempfile.mkdtemp(prefix='rsome-verif-%s-' % pid, dir='/dev/shm'
                               if os.path.isdir('/dev/shm') else None)
    try:
        rc = run(pid, tier, seed, mod, args, workdir, t0)
    finally:
        shutil.rmtree(workdir, ignore_errors=True)
    sys.exit(rc)


def run(pid, tier, seed, mod, args, workdir, t0):
    if args.replay:
        out = os.path.join(workdir, 'replay.jsonl')
        cmd = [sys.executable, '-m', 'rv.worker', pid, tier, str(seed), '0', '1',
               out, '--replay', os.path.abspath(args.replay)]
        subprocess.run(cmd, cwd=HERE, timeout=3600)
        results, metas = read_results([out])
        return verdict(pid, tier, seed, mod, results, metas, t0, [], replay=True)

    ncases = args.cases if args.cases is not None else mod.N_CASES[tier]
    nworkers = args.workers or min(int(os.environ.get('VERIF_WORKERS', '16')),
                                   max(1, ncases))
    timeout = getattr(mod, 'TIMEOUT', {'quick': 1500, 'thorough': 14400})[tier]
    outs = []
    problems = []
    crashes = []
    deadline = time.time() + timeout

    def launch(w, resume_after, gen):
        out = os.path.join(workdir, 'w%d_%d.jsonl' % (w, gen))
        outs.append(out)
        cmd = [sys.executable, '-m', 'rv.worker', pid, tier, str(seed), str(w),
               str(nworkers), out, '--cases', str(ncases), '--resume-after', str(resume_after)]
        errp = os.path.join(workdir, 'w%d_%d.err' % (w, gen))
        err = open(errp, 'w')
        return [subprocess.Popen(cmd, cwd=HERE, stdout=subprocess.DEVNULL, stderr=err),
                err, out, errp, gen]

    running = {w: launch(w, -1, 0) for w in range(nworkers)}
    while running:
        for w in list(running):
            p, err, out, errp, gen = running[w]
            try:
                p.wait(timeout=0.2)
            except subprocess.TimeoutExpired:
                if time.time() > deadline:
                    p.kill()
                    err.close()
                    problems.append('worker %d watchdog fired after %ds' % (w, timeout))
                    del running[w]
                continue
            err.close()
            del running[w]
            if p.returncode == 0:
                continue
            tail = ''
            try:
                with open(errp) as f_:
                    tail = f_.read()
            except Exception:
                pass
            if p.returncode < 0 and gen < 40:
                # native crash: find the case that was running, record it, resume after it
                last = -1
                try:
                    with open(out) as f_:
                        for line in f_:
                            try:
                                rec = json.loads(line)
                                if not rec.get('_meta'):
                                    last = max(last, rec.get('idx', -1))
                            except Exception:
                                pass
                except Exception:
                    pass
                if last < 0:
                    prev = [c['idx'] for c in crashes if c['idx'] % nworkers == w]
                    crashed = (max(prev) + nworkers) if prev else w
                else:
                    crashed = last + nworkers
                where = [ln.strip() for ln in tail.splitlines() if ln.strip().startswith('File')]
                rec = {'idx': crashed, 'status': 'error',
                       'error': 'native crash (signal %d) in %s'
                       % (-p.returncode, (where[0] if where else '?')[:120])}
                in_rsome = [ln for ln in where if (os.sep + 'rsome' + os.sep) in ln
                            and 'site-packages' not in ln]
                if getattr(mod, 'CRASH_IS_VIOLATION', False) and -p.returncode in (4, 6, 7, 8, 11) \
                        and in_rsome:
                    # the process died inside a call made by one of RSOME's solver interfaces:
                    # for this property that is the finding (the case is regenerated for replay)
                    import numpy as _np
                    try:
                        spec_ = mod.gen_case(_np.random.default_rng([seed, int(pid[1:]), crashed]),
                                             crashed, tier)
                    except Exception:
                        spec_ = None
                    fn_ = in_rsome[0].split('"')[1] if '"' in in_rsome[0] else in_rsome[0]
                    rec = {'idx': crashed, 'status': 'violation', 'nontrivial': True,
                           'mechanism': 'native_crash:' + os.path.basename(fn_),
                           'sig': 'native_crash', 'spec': spec_,
                           'detail': {'what': 'the interpreter was killed by signal %d inside a '
                                      'solver call made by RSOME' % -p.returncode,
                                      'frames': where[:6]}}
                crashes.append(rec)
                if crashed + nworkers < ncases:
                    running[w] = launch(w, crashed, gen + 1)
            else:
                problems.append('worker %d exited with %s: %s' % (w, p.returncode, tail[-1200:]))
    nerr_crash = len([c for c in crashes if c.get('status') == 'error'])
    if nerr_crash > max(3, 0.02 * ncases):
        problems.append('%d native crashes' % nerr_crash)
    with open(os.path.join(workdir, 'crashes.jsonl'), 'w') as f_:
        for c in crashes:
            f_.write(json.dumps(c) + '\n')
    outs.append(os.path.join(workdir, 'crashes.jsonl'))
    results, metas = read_results(outs)
    return verdict(pid, tier, seed, mod, results, metas, t0, problems,
                   no_evidence=args.no_evidence, expected=ncases)


def read_results(outs):
    results = []
    metas = []
    for out in outs:
        if not os.path.exists(out):
            continue
        with open(out) as f:
            for line in f:
                line = line.strip()
                if not line:
                    continue
                try:
                    rec = json.loads(line)
                except Exception:
                    continue
                if rec.get('_meta'):
                    metas.append(rec)
                else:
                    results.append(rec)
    return results, metas


def match_known(known, pid, res):
    mech = res.get('mechanism')
    if not mech:
        return None
    for k in known:
        if k.get('property') == pid and k.get('mechanism') == mech \
                and k.get('status', 'open') == 'open':
            return k
    return None


def verdict(pid, tier, seed, mod, results, metas, t0, problems, replay=False,
            no_evidence=False, expected=None):
    known = load_known()
    results.sort(key=lambda r: r.get('idx', 0))
    viol = [r for r in results if r.get('status') == 'violation']
    unknown_viol = []
    known_seen = {}
    for r in viol:
        k = match_known(known, pid, r)
        if k is None:
            unknown_viol.append(r)
        else:
            known_seen.setdefault(k['mechanism'], [k, 0])
            known_seen[k['mechanism']][1] += 1

    mech_hist = {}
    for r in viol:
        mech_hist[str(r.get('mechanism'))] = mech_hist.get(str(r.get('mechanism')), 0) + 1
    judged = [r for r in results if r.get('status') in ('held', 'violation')]
    sigs = set()
    for r in judged:
        if r.get('nontrivial'):
            sigs.add(r.get('sig', str(r.get('idx'))))
    errors = {}
    for r in results:
        if r.get('status') == 'error':
            key = r.get('error', 'error')[:160]
            errors[key] = errors.get(key, 0) + 1
    skipped = {}
    for r in results:
        if r.get('status') == 'skip':
            key = r.get('reason', 'skip')[:120]
            skipped[key] = skipped.get(key, 0) + 1
    feats = {}
    for r in results:
        for k, v in (r.get('features') or {}).items():
            vs = v if isinstance(v, list) else [v]
            d = feats.setdefault(k, {})
            for x in vs:
                x = str(x)
                d[x] = d.get(x, 0) + 1
    counters = {}
    anchors = {}
    lines_hit = {}
    for m in metas:
        for k, v in (m.get('counters') or {}).items():
            counters[k] = counters.get(k, 0) + v
        for k, v in (m.get('anchor_calls') or {}).items():
            anchors[k] = anchors.get(k, 0) + v
        for k, v in (m.get('anchor_lines') or {}).items():
            s = lines_hit.setdefault(k, [set(), 0])
            s[0].update(v[0])
            s[1] = max(s[1], v[1])

    # write replays
    rdir = os.path.join(HERE, 'replays', pid)
    replay_paths = {}
    if not replay:
        for r in unknown_viol[:20] + [x for x in viol if x not in unknown_viol][:5]:
            os.makedirs(rdir, exist_ok=True)
            path = os.path.join(rdir, 'seed%d_%s_case%s.json' % (seed, tier, r.get('idx')))
            with open(path, 'w') as f:
                json.dump({'property': pid, 'seed': seed, 'tier': tier,
                           'idx': r.get('idx'), 'spec': r.get('spec'),
                           'detail': r.get('detail'),
                           'mechanism': r.get('mechanism')}, f, indent=1, default=str)
            replay_paths[r.get('idx')] = os.path.relpath(path, HERE)

    floors = getattr(mod, 'FLOORS', {})
    min_judged = floors.get('judged', {}).get(tier, 1) if isinstance(
        floors.get('judged'), dict) else floors.get('judged', 1)
    min_nontriv = floors.get('nontrivial', 2)
    reasons = list(problems)
    if not replay:
        if expected is not None and len(results) < expected:
            reasons.append('only %d of %d cases reported' % (len(results), expected))
        if len(judged) < min_judged:
            reasons.append('judged %d < floor %d' % (len(judged), min_judged))
        if sum(errors.values()) > max(10, 0.1 * len(results)):
            reasons.append('%d cases ended in a harness error' % sum(errors.values()))
        if len(sigs) < min_nontriv:
            reasons.append('distinct non-trivial %d < floor %d' % (len(sigs), min_nontriv))
        for a in getattr(mod, 'ANCHORS', []):
            if anchors.get(a, 0) < 1:
                reasons.append('anchor %s never entered' % a)
        for cname, cmin in (floors.get('counters') or {}).items():
            if counters.get(cname, 0) < cmin:
                reasons.append('counter %s=%d < %d' % (cname, counters.get(cname, 0), cmin))

    samples = []
    for r in judged:
        if r.get('nontrivial') and r.get('spec') is not None:
            samples.append({'idx': r['idx'], 'sig': r.get('sig'), 'spec': r.get('spec'),
                            'observed': r.get('observed')})
        if len(samples) >= 3:
            break
    if not samples:
        for r in results[:2]:
            samples.append({'idx': r.get('idx'), 'spec': r.get('spec'),
                            'status': r.get('status')})

    head, tree_hash = repo_state()
    wall = time.time() - t0
    evidence = {
        'property_id': pid,
        'tier': tier,
        'seed': seed,
        'level': 'exploration',
        'coverage': {
            'evaluations': len(results),
            'judged': len(judged),
            'distinct_nontrivial': len(sigs),
            'rule': getattr(mod, 'RULE', ''),
            'samples': samples,
            'exhaustive': bool(getattr(mod, 'EXHAUSTIVE', False)),
            'features': {k: dict(sorted(v.items(), key=lambda kv: -kv[1])[:40])
                         for k, v in feats.items()},
            'monitor_counters': counters,
            'anchor_calls': anchors,
            'anchor_lines': {k: '%d/%d' % (len(v[0]), v[1]) for k, v in lines_hit.items()},
            'errors': errors,
            'skipped': skipped,
            'known_findings_seen': {k: v[1] for k, v in known_seen.items()},
            'violation_mechanisms': mech_hist,
            'verdict': ('violated' if unknown_viol else
                        'inconclusive' if reasons else 'held'),
            'inconclusive_reasons': reasons,
            'repo_head': head,
            'rsome_sources_sha1': tree_hash,
        },
        'assumptions': getattr(mod, 'ASSUMPTIONS', []),
        'wall_s': round(wall, 2),
        'violations': len(unknown_viol),
    }
    if not replay and not no_evidence:
        os.makedirs(os.path.join(HERE, 'evidence'), exist_ok=True)
        with open(os.path.join(HERE, 'evidence', pid + '.json'), 'w') as f:
            json.dump(evidence, f, indent=1, default=str, sort_keys=True)

    print('%s tier=%s seed=%d cases=%d judged=%d nontrivial_distinct=%d errors=%d '
          'skipped=%d wall=%.1fs' % (pid, tier, seed, len(results), len(judged),
                                     len(sigs), sum(errors.values()),
                                     sum(skipped.values()), wall))
    if errors:
        top = sorted(errors.items(), key=lambda kv: -kv[1])[:4]
        print('harness errors (cases without a verdict): %s' % json.dumps(dict(top)))
    for mech, (k, n) in known_seen.items():
        print('KNOWN-FINDING: property=%s %s [%s, seen in %d cases]' %
              (pid, k.get('what', mech), mech, n))
    if mech_hist:
        print('violation mechanisms: %s' % json.dumps(mech_hist, sort_keys=True))
    if unknown_viol:
        for r in unknown_viol[:10]:
            path = replay_paths.get(r.get('idx'), args_replay_path(replay))
            print('VIOLATION property=%s replay=%s' % (pid, path))
            print('  mechanism=%s detail=%s' % (r.get('mechanism'),
                                               json.dumps(r.get('detail'), default=str)[:600]))
        return 1
    if reasons:
        print('INCONCLUSIVE property=%s reason=%s' % (pid, '; '.join(reasons)[:2000]))
        return 3
    print('HELD property=%s' % pid)
    return 0


def args_replay_path(replay):
    return 'replayed-case' if replay else 'none'


if __name__ == '__main__':
    main()
