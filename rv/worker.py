"""One OS process per shard: imports rsome from the working tree, switches the
monitors on, runs its share of the cases and streams one JSON line per case."""
import argparse
import faulthandler
import importlib
import json
import os
import signal
import sys
import traceback
import warnings

warnings.filterwarnings('ignore')
faulthandler.enable()

import numpy as np  # noqa: E402

REPO = os.path.realpath(os.environ.get('RSOME_VERIF_REPO', '/repo'))


class CaseTimeout(Exception):
    pass


_FIRED = [0]


def _alarm(signum, frame):
    # The exception is lost when the signal lands inside a native callback (Gurobi's log
    # callback swallows it), so the alarm re-arms itself; if it keeps being swallowed the
    # worker kills itself and the runner resumes after the case (recorded as an error).
    _FIRED[0] += 1
    if _FIRED[0] >= 5:
        os.kill(os.getpid(), signal.SIGKILL)
    signal.alarm(3)
    raise CaseTimeout('case watchdog fired')


class Coverage:
    """sys.monitoring based anchor-function call counts and line coverage."""

    def __init__(self, anchors):
        self.anchor_set = set(anchors)
        self.calls = {a: 0 for a in anchors}
        self.lines = {a: set() for a in anchors}
        self.totals = {}
        self.code_key = {}
        self.prefix = os.path.join(REPO, 'rsome') + os.sep
        self.on = False

    def key_of(self, code):
        k = self.code_key.get(code)
        if k is None:
            fn = code.co_filename
            if fn.startswith(self.prefix):
                modname = os.path.basename(fn)[:-3]
                k = modname + ':' + code.co_qualname
                if k not in self.anchor_set:
                    k = ''
                else:
                    self.totals[k] = len({ln for (_, _, ln) in code.co_lines()
                                          if ln is not None and ln != code.co_firstlineno})
            else:
                k = ''
            self.code_key[code] = k
        return k

    def start(self):
        if not self.anchor_set or not hasattr(sys, 'monitoring'):
            return
        mon = sys.monitoring
        tid = mon.COVERAGE_ID
        try:
            mon.use_tool_id(tid, 'rsome-verif')
        except Exception:
            return
        DIS = mon.DISABLE

        def on_start(code, offset):
            k = self.key_of(code)
            if not k:
                return DIS
            self.calls[k] += 1

        def on_line(code, line):
            k = self.key_of(code)
            if k:
                self.lines[k].add(line)
            return DIS

        mon.register_callback(tid, mon.events.PY_START, on_start)
        mon.register_callback(tid, mon.events.LINE, on_line)
        mon.set_events(tid, mon.events.PY_START | mon.events.LINE)
        self.on = True

    def report(self):
        return ({k: v for k, v in self.calls.items()},
                {k: [sorted(v), self.totals.get(k, 0)] for k, v in self.lines.items()})


class Ctx:
    """Per-worker context handed to run_case: counters for monitors."""

    def __init__(self, tier, seed):
        self.tier = tier
        self.seed = seed
        self.counters = {}

    def count(self, name, n=1):
        self.counters[name] = self.counters.get(name, 0) + n


def jsonable(o):
    if isinstance(o, np.ndarray):
        return o.tolist()
    if isinstance(o, (np.integer,)):
        return int(o)
    if isinstance(o, (np.floating,)):
        return float(o)
    if isinstance(o, (np.bool_,)):
        return bool(o)
    if isinstance(o, (set, frozenset, tuple)):
        return list(o)
    return str(o)


def main():
    ap = argparse.ArgumentParser()
    ap.add_argument('pid')
    ap.add_argument('tier')
    ap.add_argument('seed', type=int)
    ap.add_argument('shard', type=int)
    ap.add_argument('nshards', type=int)
    ap.add_argument('out')
    ap.add_argument('--cases', type=int, default=0)
    ap.add_argument('--replay', default=None)
    ap.add_argument('--resume-after', type=int, default=-1)
    a = ap.parse_args()

    import rsome
    rpath = os.path.realpath(rsome.__file__)
    if not rpath.startswith(REPO + os.sep):
        sys.stderr.write('rsome imported from %s, expected under %s\n' % (rpath, REPO))
        sys.exit(4)

    mod = importlib.import_module('rv.props.' + a.pid.lower())
    pnum = int(a.pid[1:])
    ctx = Ctx(a.tier, a.seed)
    if hasattr(mod, 'setup_worker'):
        mod.setup_worker(ctx)
    cov = Coverage(getattr(mod, 'ANCHORS', []))
    cov.start()
    signal.signal(signal.SIGALRM, _alarm)
    case_timeout = getattr(mod, 'CASE_TIMEOUT', 120)
    kept = 0

    out = open(a.out, 'w')

    def emit(rec):
        out.write(json.dumps(rec, default=jsonable) + '\n')
        out.flush()

    if a.replay:
        with open(a.replay) as f:
            rp = json.load(f)
        todo = [(rp.get('idx', 0), rp['spec'])]
    else:
        todo = [(i, None) for i in range(a.shard, a.cases, a.nshards)
                if i > a.resume_after]

    for idx, spec in todo:
        try:
            if spec is None:
                rng = np.random.default_rng([a.seed, pnum, idx])
                spec = mod.gen_case(rng, idx, a.tier)
            _FIRED[0] = 0
            cmod = sys.modules.get('rv.contracts')
            if cmod is not None:
                cmod.LAST_BROKEN.clear()
            signal.alarm(case_timeout)
            try:
                res = mod.run_case(spec, ctx)
            finally:
                signal.alarm(0)
            if res is None:
                res = {'status': 'skip', 'reason': 'no result'}
            cmod = sys.modules.get('rv.contracts')
            if cmod is not None and cmod.LAST_BROKEN and res.get('status') != 'violation':
                # a post-condition on one of RSOME's helpers failed somewhere inside the case and
                # the exception was absorbed on the way (by RSOME or by a monitor that treats a
                # raising operation as a refusal): the broken contract is the finding
                names = sorted(set(cmod.LAST_BROKEN))
                res = {'status': 'violation', 'mechanism': 'contract:' + '+'.join(names),
                       'detail': {'what': 'post-condition of %s failed during the case' % names,
                                  'times': len(cmod.LAST_BROKEN),
                                  'case_result_otherwise': res.get('status')},
                       'sig': 'contract', 'nontrivial': True,
                       'features': res.get('features')}
        except CaseTimeout:
            res = {'status': 'error', 'error': 'case watchdog (%ds)' % case_timeout}
        except Exception as e:
            cmod = sys.modules.get('rv.contracts')
            if cmod is not None and (isinstance(e, cmod.ContractBroken) or cmod.LAST_BROKEN):
                names = sorted(set(cmod.LAST_BROKEN)) or [getattr(e, 'name', '?')]
                res = {'status': 'violation', 'mechanism': 'contract:' + '+'.join(names),
                       'detail': {'what': 'post-condition of %s failed during the case' % names,
                                  'times': len(cmod.LAST_BROKEN), 'raised': type(e).__name__},
                       'sig': 'contract', 'nontrivial': True}
                res['idx'] = idx
                res['spec'] = spec
                emit(res)
                continue
            tb = traceback.extract_tb(e.__traceback__)
            where = ''
            for fr in reversed(tb):
                where = '%s:%d %s' % (os.path.basename(fr.filename), fr.lineno, fr.name)
                break
            res = {'status': 'error',
                   'error': 'harness %s: %s @ %s' % (type(e).__name__, str(e)[:100], where)}
        res['idx'] = idx
        keep_spec = (res.get('status') == 'violation' or a.replay or
                     (res.get('nontrivial') and kept < 2) or
                     (res.get('status') == 'error' and kept < 4))
        if keep_spec:
            res['spec'] = spec
            if res.get('status') != 'violation':
                kept += 1
        emit(res)

    calls, lines = cov.report()
    emit({'_meta': True, 'shard': a.shard, 'counters': ctx.counters,
          'anchor_calls': calls, 'anchor_lines': lines})
    out.close()


if __name__ == '__main__':
    main()
