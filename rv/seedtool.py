"""Seeded-change bookkeeping.

  python -m rv.seedtool import <id> <worktree> [--name NAME]   copy patch + demo into /verif/seeded/<NAME>/
  python -m rv.seedtool verify <NAME> [--tests] [--checks C01,C02|all] [--tier quick]
        applies the patch to a scratch copy of /repo (under /dev/shm), confirms the demo fails
        with the change and passes without it, optionally runs the repository's own tests on the
        copy, runs the given checks against the copy and records everything in meta.json.
The scratch copy is removed afterwards.  /repo itself is never modified."""
import argparse
import json
import os
import shutil
import subprocess
import sys
import time

HERE = os.path.dirname(os.path.dirname(os.path.abspath(__file__)))
PY = '/venv/bin/python'


def sh(cmd, cwd=None, env=None, timeout=3600):
    p = subprocess.run(cmd, cwd=cwd, env=env, capture_output=True, text=True, timeout=timeout)
    return p.returncode, p.stdout, p.stderr


def scratch_copy(name):
    d = '/dev/shm/rsome-seed-%s-%d' % (name, os.getpid())
    if os.path.exists(d):
        shutil.rmtree(d)
    os.makedirs(d)
    rc, out, err = sh(['git', '-C', '/repo', 'archive', 'HEAD'], timeout=120) if False else (0, '', '')
    subprocess.run('git -C /repo archive HEAD | tar -x -C %s' % d, shell=True, check=True)
    return d


def cmd_import(a):
    name = a.name or a.id
    dst = os.path.join(HERE, 'seeded', name)
    os.makedirs(dst, exist_ok=True)
    shutil.copy(os.path.join(a.worktree, 'patch_%s.diff' % a.id), os.path.join(dst, 'patch.diff'))
    shutil.copy(os.path.join(a.worktree, 'demo_%s.py' % a.id), os.path.join(dst, 'demo.py'))
    meta_p = os.path.join(dst, 'meta.json')
    meta = json.load(open(meta_p)) if os.path.exists(meta_p) else {}
    meta.setdefault('property', a.id)
    meta.setdefault('origin', 'sub-agent given only the property text and its own worktree')
    json.dump(meta, open(meta_p, 'w'), indent=1)
    print('imported', dst)


def cmd_verify(a):
    dst = os.path.join(HERE, 'seeded', a.name)
    meta_p = os.path.join(dst, 'meta.json')
    meta = json.load(open(meta_p))
    d = scratch_copy(a.name)
    try:
        rc, out, err = sh(['git', 'apply', '--check', os.path.join(dst, 'patch.diff')], cwd=d) \
            if os.path.isdir(os.path.join(d, '.git')) else (None, '', '')
        pfile = os.path.join(dst, 'patch_rebased.diff')
        if not os.path.exists(pfile):
            pfile = os.path.join(dst, 'patch.diff')
        else:
            meta['rebased'] = 'patch.diff is the change as delivered; a later fix: commit touched ' \
                              'the same lines, patch_rebased.diff is the same change on the current tree'
        rc, out, err = sh(['patch', '-p1', '--no-backup-if-mismatch', '-i', pfile], cwd=d)
        meta['patch_applies_to_head'] = (rc == 0)
        meta['repo_head_at_verify'] = sh(['git', '-C', '/repo', 'rev-parse', '--short',
                                          'HEAD'])[1].strip()
        if rc != 0:
            meta['patch_error'] = (out + err)[-400:]
            print('PATCH DOES NOT APPLY', out[-300:], err[-300:])
            json.dump(meta, open(meta_p, 'w'), indent=1)
            return
        env = dict(os.environ)
        env['PYTHONPATH'] = d
        shutil.copy(os.path.join(dst, 'demo.py'), os.path.join(d, 'demo_seed.py'))
        rc1, o1, e1 = sh([PY, 'demo_seed.py'], cwd=d, env=env, timeout=900)
        env2 = dict(os.environ)
        env2['PYTHONPATH'] = '/repo'
        tmpdemo = '/dev/shm/demo-clean-%s-%d' % (a.name, os.getpid())
        os.makedirs(tmpdemo, exist_ok=True)
        shutil.copy(os.path.join(dst, 'demo.py'), os.path.join(tmpdemo, 'demo_seed.py'))
        rc0, o0, e0 = sh([PY, 'demo_seed.py'], cwd=tmpdemo, env=env2, timeout=900)
        shutil.rmtree(tmpdemo, ignore_errors=True)
        meta['demo_with_change_exit'] = rc1
        meta['demo_without_change_exit'] = rc0
        meta['demo_output_with_change'] = (o1 + e1)[-600:]
        print('demo with change: exit', rc1, '| without:', rc0)
        if a.tests:
            t0 = time.time()
            rc, out, err = sh([PY, '-m', 'pytest', '-q', '-x', '-p', 'no:cacheprovider',
                               '--timeout=900'], cwd=d, env=env, timeout=3000)
            tail = out.strip().split('\n')[-1] if out.strip() else ''
            meta['repo_tests_with_change'] = {'exit': rc, 'summary': tail,
                                              'wall_s': round(time.time() - t0)}
            print('repo tests with change:', rc, tail)
        if a.checks:
            ids = [json.loads(l)['id'] for l in open(os.path.join(HERE, 'properties.jsonl'))] \
                if a.checks == 'all' else a.checks.split(',')
            res = meta.setdefault('checks', {})
            for cid in ids:
                env3 = dict(os.environ)
                env3['RSOME_VERIF_REPO'] = d
                t0 = time.time()
                rc, out, err = sh([os.path.join(HERE, 'check'), cid, '--tier', a.tier,
                                   '--no-evidence'], cwd=HERE, env=env3, timeout=7200)
                lines = [ln for ln in out.split('\n') if ln.startswith(('VIOLATION', 'HELD',
                                                                        'INCONCLUSIVE',
                                                                        'violation mech'))]
                verdict = 'VIOLATION' if rc == 1 else 'HELD' if rc == 0 else 'INCONCLUSIVE'
                mech = [ln for ln in lines if ln.startswith('violation mech')]
                res['%s:%s' % (cid, a.tier)] = {'verdict': verdict, 'wall_s': round(time.time() - t0),
                                                'mechanisms': mech[0][22:400] if mech else None}
                print(cid, a.tier, verdict, (mech[0][:200] if mech else ''))
        json.dump(meta, open(meta_p, 'w'), indent=1)
    finally:
        shutil.rmtree(d, ignore_errors=True)


def cmd_regress(a):
    """Every seeded change against the quick check of the property it breaks."""
    base = os.path.join(HERE, 'seeded')
    missed = []
    for name in sorted(os.listdir(base)):
        mp = os.path.join(base, name, 'meta.json')
        if not os.path.exists(mp):
            continue
        meta_ = json.load(open(mp))
        prop = meta_.get('regress_check') or meta_.get('property', name)
        if getattr(a, 'only', None) and prop not in a.only.split(','):
            continue
        d = scratch_copy(name)
        try:
            pfile = os.path.join(base, name, 'patch_rebased.diff')
            if not os.path.exists(pfile):
                pfile = os.path.join(base, name, 'patch.diff')
            rc, out, err = sh(['patch', '-p1', '--no-backup-if-mismatch', '-i', pfile], cwd=d)
            if rc != 0:
                print(name, 'PATCH DOES NOT APPLY')
                missed.append(name)
                continue
            env = dict(os.environ)
            env['RSOME_VERIF_REPO'] = d
            rc, out, err = sh([os.path.join(HERE, 'check'), prop, '--tier', a.tier,
                               '--no-evidence'], cwd=HERE, env=env, timeout=7200)
            mech = [ln for ln in out.split('\n') if ln.startswith('violation mech')]
            print(name, prop, 'VIOLATION' if rc == 1 else 'HELD' if rc == 0 else 'INCONCLUSIVE',
                  mech[0][22:160] if mech else '')
            if rc != 1:
                missed.append(name)
        finally:
            shutil.rmtree(d, ignore_errors=True)
    print('missed:', missed)
    sys.exit(1 if missed else 0)


def main():
    ap = argparse.ArgumentParser()
    sub = ap.add_subparsers(dest='cmd')
    i = sub.add_parser('import')
    i.add_argument('id')
    i.add_argument('worktree')
    i.add_argument('--name', default=None)
    v = sub.add_parser('verify')
    v.add_argument('name')
    v.add_argument('--tests', action='store_true')
    v.add_argument('--checks', default=None)
    v.add_argument('--tier', default='quick')
    r = sub.add_parser('regress')
    r.add_argument('--tier', default='quick')
    r.add_argument('--only', default=None, help='comma-separated property ids')
    a = ap.parse_args()
    {'import': cmd_import, 'verify': cmd_verify, 'regress': cmd_regress}[a.cmd](a)


if __name__ == '__main__':
    main()
