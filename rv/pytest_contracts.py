"""pytest plugin: runs the repository's own tests with the harness contracts on
(RSOME_VERIF=1 PYTHONPATH=/verif:/verif/.deps pytest -p rv.pytest_contracts).  Prints the
number of contract evaluations at the end; a broken contract fails the test that hit it."""
import os


class _Ctx:
    def __init__(self):
        self.counters = {}

    def count(self, name, n=1):
        self.counters[name] = self.counters.get(name, 0) + n


CTX = _Ctx()


def pytest_configure(config):
    if os.environ.get('RSOME_VERIF') != '1':
        return
    from rv import contracts
    contracts.install_algebra(CTX)
    contracts.install_events(CTX)
    contracts.install_helpers(CTX, ['flat', 'vert_comb', 'diag_comb', 'add_linear', 'index_array',
                                    'rso_broadcast'])


def pytest_terminal_summary(terminalreporter):
    if CTX.counters:
        terminalreporter.write_line('contract evaluations: %s' % dict(sorted(CTX.counters.items())))
