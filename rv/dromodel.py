"""Neutral specification of event-wise distributionally robust models, their
translation into RSOME's dro API, the NumPy interpretation of a returned
solution, an adversary (worst distribution for fixed decisions, an LP over
atoms at support points) and a cutting-plane reference optimum."""
import itertools

import numpy as np
from scipy.optimize import linprog

from rv import sets as S
from rv.common import user_array, digest as _digest


# ------------------------------------------------------------------ helpers

def partitions(n):
    """All set partitions of range(n) as lists of sorted blocks."""
    if n == 0:
        yield []
        return
    for p in partitions(n - 1):
        for i in range(len(p)):
            yield p[:i] + [p[i] + [n - 1]] + p[i + 1:]
        yield p + [[n - 1]]


def random_partition(rng, n):
    labels = [0]
    for _ in range(1, n):
        labels.append(int(rng.integers(0, max(labels) + 2)))
    blocks = {}
    for i, l in enumerate(labels):
        blocks.setdefault(l, []).append(i)
    return [blocks[k] for k in sorted(blocks)]


def support_points(prims, n, rng=None, extra_dirs=()):
    """(points, exact): vertices when the support is a box / 1-norm / inf-norm ball /
    singleton over all coordinates (exact=True), else boundary points (exact=False)."""
    if len(prims) == 1 and prims[0]['t'] in ('box', 'norm1', 'norminf') and \
            list(prims[0].get('idx', range(n))) == list(range(n)):
        p = prims[0]
        if p['t'] == 'box':
            lo, hi = np.array(p['lo'], float), np.array(p['hi'], float)
            pts = [np.array(v) for v in itertools.product(*[
                ([lo[i]] if lo[i] == hi[i] else [lo[i], hi[i]]) for i in range(n)])]
            return pts, True
        c = np.array(p['c'], float)
        D = np.array(p['D'], float)
        if p['t'] == 'norminf':
            pts = [c + np.array(sg) * p['r'] / D for sg in itertools.product([-1, 1], repeat=n)]
            return pts, True
        pts = []
        for i in range(n):
            for sg in (-1, 1):
                v = c.copy()
                v[i] += sg * p['r'] / D[i]
                pts.append(v)
        return pts, True
    if len(prims) == 1 and prims[0]['t'] == 'wass' and prims[0]['p'] in (1, 'inf'):
        p = prims[0]
        c = np.array(p['c'], float)
        k = len(c)
        ub = p['ubar']
        pts = [np.concatenate([c, [0.0]])]
        if p['p'] == 1:
            for i in range(k):
                for sg in (-1, 1):
                    v = c.copy()
                    v[i] += sg * ub
                    pts.append(np.concatenate([v, [ub]]))
        else:
            for sg in itertools.product([-1, 1], repeat=k):
                pts.append(np.concatenate([c + ub * np.array(sg), [ub]]))
        return pts, True
    pts = []
    dirs = [np.eye(n)[i] * sg for i in range(n) for sg in (1, -1)] + list(extra_dirs)
    if rng is not None:
        dirs += [rng.normal(size=n) for _ in range(6 + 2 * n)]
    z0 = S.interior_point(prims, n)
    for d in dirs:
        z, _ = S.maximize(prims, d, n, z0=z0)
        if z is not None and not any(np.allclose(z, q, atol=1e-9) for q in pts):
            pts.append(z)
    return pts, False


def hrep(prims, n):
    """Explicit H-representation G z <= h, Ge z = he of a polyhedral set without auxiliary
    variables (1-norm balls are expanded into their 2^n sign rows)."""
    G, h, Ge, he = [], [], [], []
    for p in prims:
        if p['t'] == 'norm1':
            D = np.array(p['D'], float)
            c = np.array(p['c'], float)
            I = list(p.get('idx', range(n)))
            for sg in itertools.product([-1, 1], repeat=len(I)):
                row = np.zeros(n)
                row[I] = np.array(sg) * D
                G.append(row)
                h.append(p['r'] + row[I] @ c)
        else:
            N, A, b, Ae, be = S._poly_rows([p], n)
            assert N == n
            G += list(A)
            h += list(b)
            Ge += list(Ae)
            he += list(be)
    return (np.array(G).reshape(-1, n), np.array(h, float), np.array(Ge).reshape(-1, n),
            np.array(he, float))


# ------------------------------------------------------------------ generation

def _vec(rng, n, dens=0.7, scale=2.0):
    v = np.round(rng.uniform(-scale, scale, n), 2)
    return v * (rng.random(n) < dens)


def gen(rng, tier='quick', exact_only=False, label_kind=None, allow_affine=True,
        force=None):
    force = force or {}
    big = tier == 'thorough'
    Sn = int(force.get('S', rng.integers(1, 5 if not big else 6)))
    nz = int(rng.integers(1, 4))
    lk = label_kind or ['int', 'str', 'range', 'range', 'perm', 'perm'][int(rng.integers(6))]
    if lk == 'str':
        labels = ['s%c' % (97 + i) for i in range(Sn)]
    elif lk == 'int':
        labels = None
    elif lk == 'perm' and Sn >= 2:
        # integer labels that look like positions but are not: a rotation of 0..S-1, or 1..S
        k_ = int(rng.integers(1, Sn))
        labels = [int((i + k_) % Sn) for i in range(Sn)] if rng.random() < 0.6 else \
            [i + 1 for i in range(Sn)]
    else:
        labels = [10 * (i + 1) for i in range(Sn)]
    # supports
    centers = np.round(rng.uniform(-1.5, 1.5, (Sn, nz)), 2)
    supports = []
    shared = rng.random() < 0.3
    kinds_exact = ['box', 'box', 'norm1', 'norminf', 'singleton']
    kinds_all = kinds_exact + ['norm2', 'polytope', 'sumsqr', 'boxcap']
    for s in range(Sn):
        if shared and s > 0:
            supports.append(supports[0])
            continue
        kinds = kinds_exact if exact_only else kinds_all
        k = kinds[int(rng.integers(len(kinds)))]
        c = centers[s] if not shared else np.round(centers.mean(axis=0), 2)
        if k == 'singleton':
            prims = [{'t': 'box', 'lo': c.tolist(), 'hi': c.tolist(), 'idx': list(range(nz)),
                      'center': c.tolist()}]
        elif k == 'boxcap':
            pr, _, zc = S.random_set(rng, nz, ['box'], allow_aux=False, center=c)
            c = np.array(zc[:nz], float)       # random_set may move the centre (zero bounds)
            pr = [pr[0]]
            a = np.round(rng.normal(size=nz), 2)
            pr.append({'t': 'lin', 'A': [a.tolist()],
                       'b': [float(np.round(a @ c + 0.4 * np.abs(a).sum() + 0.05, 3))]})
            pr[0]['center'] = c.tolist()
            prims = pr
        else:
            pr, n_, zc = S.random_set(rng, nz, [k], allow_aux=False, center=c)
            # a single primitive keeps supports simple; a polytope needs its bounding piece
            prims = [q_ for q_ in pr if q_['t'] != 'eq'][:2] if k == 'polytope' else [pr[0]]
            prims[0]['center'] = list(zc)
            c = np.array(zc[:nz], float)       # random_set may move the centre (zero bounds)
        supports.append(prims)
        if shared:
            shared_c = c
        else:
            centers[s] = c
    if shared:
        centers = np.tile(shared_c, (Sn, 1))
    wass = None
    if force.get('wass', rng.random() < 0.2) and nz >= 2:
        # Wasserstein-type ambiguity: last component u is the lifted distance variable,
        # ||z - zhat_s|| <= u <= ubar in scenario s and E[u] <= theta
        pn = [1, 'inf'][int(rng.integers(2))] if exact_only else [1, 'inf', 2][int(rng.integers(3))]
        ubar = float(np.round(rng.uniform(0.8, 2.0), 2))
        theta = float(np.round(rng.uniform(0.1, 0.6) * ubar, 3))
        supports = []
        for s in range(Sn):
            zh = centers[s][:nz - 1]
            supports.append([{'t': 'wass', 'p': pn, 'c': zh.tolist(), 'ubar': ubar,
                              'center': zh.tolist() + [theta / 2]}])
            centers[s][nz - 1] = theta / 2
        shared = False
        wass = {'theta': theta}
    # probabilities
    ph = rng.uniform(0.5, 1.5, Sn)
    ph = np.round(ph / ph.sum(), 3)
    ph[-1] = np.round(1 - ph[:-1].sum(), 3)
    kinds = ['fixed', 'fixed', 'box', 'norm1', 'norminf'] + ([] if exact_only else ['norm2', 'kl'])
    if Sn == 1:
        kinds = ['fixed', 'free']
    pk = kinds[int(rng.integers(len(kinds)))]
    pset = {'t': pk, 'phat': ph.tolist()}
    if pk == 'box':
        w = np.round(rng.uniform(0.02, 0.2, Sn), 3)
        pset['lo'] = np.maximum(ph - w, 0).tolist()
        pset['hi'] = np.minimum(ph + w, 1).tolist()
    elif pk in ('norm1', 'norminf', 'norm2'):
        pset['r'] = float(np.round(rng.uniform(0.05, 0.3), 3))
    elif pk == 'kl':
        pset['r'] = float(np.round(rng.uniform(0.01, 0.2), 3))
    # a member distribution first (consistency by construction): atoms at the centres
    moments = []
    nmom = int(rng.integers(0, 3)) if Sn * nz > 0 else 0
    used_events = []
    if wass is not None:
        a = np.zeros(nz)
        a[-1] = 1.0
        moments.append({'event': list(range(Sn)),
                        'prims': [{'t': 'lin', 'A': [a.tolist()], 'b': [wass['theta']]}]})
        used_events.append(list(range(Sn)))
        nmom = int(rng.integers(0, 2))
    for _ in range(nmom):
        r_ev = rng.random()
        if r_ev < 0.45 or Sn == 1:
            ev = list(range(Sn))
        elif r_ev < 0.6 and Sn >= 3:
            # both end scenarios and a proper subset of the ones in between
            mid = [i for i in range(1, Sn - 1) if rng.random() < 0.4]
            if len(mid) == Sn - 2:
                mid = mid[1:]
            ev = [0] + mid + [Sn - 1]
        else:
            ev = sorted(rng.choice(Sn, size=int(rng.integers(1, Sn + 1)), replace=False).tolist())
        if ev in used_events:
            continue
        used_events.append(ev)
        pe = ph[ev] / ph[ev].sum()
        mu = pe @ centers[ev]
        style = ['box', 'upper', 'eq', 'norm1'][int(rng.integers(4))] if not exact_only else \
            ['box', 'upper', 'eq'][int(rng.integers(3))]
        if pk != 'fixed' and style == 'eq':
            style = 'box'         # an exact conditional mean is inconsistent with varying p
        w = np.round(rng.uniform(0.05, 0.6, nz), 2)
        if style == 'box':
            mp = [{'t': 'box', 'lo': (mu - w).tolist(), 'hi': (mu + w).tolist(),
                   'idx': list(range(nz))}]
        elif style == 'upper':
            a = np.round(rng.normal(size=nz), 2)
            mp = [{'t': 'lin', 'A': [a.tolist()], 'b': [float(a @ mu + 0.3)]}]
        elif style == 'eq':
            mp = [{'t': 'box', 'lo': mu.tolist(), 'hi': mu.tolist(), 'idx': list(range(nz))}]
        else:
            mp = [{'t': 'norm1', 'D': [1.0] * nz, 'c': mu.tolist(), 'r': float(w.sum()),
                   'idx': list(range(nz))}]
        moments.append({'event': ev, 'prims': mp})
    # decisions
    nv = int(rng.integers(1, 3))
    xvars = []
    for _ in range(nv):
        k = int(rng.integers(1, 3))
        part = random_partition(rng, Sn) if rng.random() < 0.7 else [list(range(Sn))]
        mask = None
        if allow_affine and rng.random() < 0.35:
            mask = (rng.random((k, nz)) < 0.6).astype(int)
            if not mask.any():
                mask[0, 0] = 1
            mask = mask.tolist()
        order = list(range(len(part)))
        rng.shuffle(order)
        xvars.append({'n': k, 'partition': part, 'mask': mask, 'order': order,
                      'M': float(np.round(rng.uniform(1.0, 3.0), 1))})

    def expr(with_z=True, dens=0.8):
        e = {'a': [_vec(rng, v['n'], dens).tolist() for v in xvars],
             'P': [(np.round(rng.uniform(-1.5, 1.5, (v['n'], nz)), 2) *
                    (rng.random((v['n'], nz)) < 0.4) * (0 if (v['mask'] is not None or not with_z)
                                                         else 1)).tolist() for v in xvars],
             'q': (_vec(rng, nz, 0.6, 1.5) * (1 if with_z else 0)).tolist(),
             'k': float(np.round(rng.uniform(-1, 1), 2))}
        return e

    mode = 'minsup' if rng.random() < 0.6 else 'maxinf'
    npc = int(rng.integers(2, 4)) if rng.random() < 0.5 else 1
    pieces = [expr() for _ in range(npc)]
    rows = []
    for _ in range(int(rng.integers(0, 4))):
        expect = bool(rng.random() < 0.4)
        rows.append({'e': expr(), 'sense': 'le' if rng.random() < 0.5 else 'ge', 'rhs': 0.0,
                     'expect': expect})
    amb2 = None
    if rows and rng.random() < 0.3 and wass is None:
        sup2 = []
        cen2 = centers.copy()
        for s in range(Sn):
            k2 = (kinds_exact[:4] if exact_only else kinds_exact[:4] + ['norm2'])[int(rng.integers(
                4 if exact_only else 5))]
            pr2, n2, zc2 = S.random_set(rng, nz, [k2], allow_aux=False, center=centers[s],
                                        scale=float(rng.uniform(0.4, 1.2)), allow_fixed=False)
            pr2 = [pr2[0]]
            pr2[0]['center'] = list(zc2)
            cen2[s] = np.array(zc2[:nz], float)    # random_set may move the centre (zero bounds)
            sup2.append(pr2)
        ph2 = rng.uniform(0.5, 1.5, Sn)
        ph2 = np.round(ph2 / ph2.sum(), 3)
        ph2[-1] = np.round(1 - ph2[:-1].sum(), 3)
        k2 = ['fixed', 'fixed', 'norminf', 'norminf', 'norm1'] + \
            ([] if exact_only else ['kl', 'kl', 'norm2'])
        # when the default set has a KL or 2-norm probability set, the second one gets another
        # kind (or other parameters) more often: the two sets must not influence each other
        t2 = k2[int(rng.integers(len(k2)))]
        p2set = {'t': t2, 'phat': ph2.tolist()}
        if t2 in ('norminf', 'norm1', 'norm2'):
            p2set['r'] = float(np.round(rng.uniform(0.05, 0.2), 3))
        elif t2 == 'kl':
            p2set['r'] = float(np.round(rng.uniform(0.01, 0.2), 3))
        amb2 = {'supports': sup2, 'centers': cen2.tolist(), 'shared': False,
                'pset': p2set, 'moments': []}
        if Sn == 1:
            amb2['pset'] = {'t': 'fixed', 'phat': [1.0]}
        if rng.random() < 0.5:
            pe = ph2 / ph2.sum()
            mu = pe @ cen2
            w2 = np.round(rng.uniform(0.05, 0.5, nz), 2)
            amb2['moments'].append({'event': list(range(Sn)), 'prims': [
                {'t': 'box', 'lo': (mu - w2).tolist(), 'hi': (mu + w2).tolist(),
                 'idx': list(range(nz))}]})
        for row in rows:
            row['amb'] = int(rng.random() < 0.6)
        # the probability set of the second ambiguity set only matters in rows written with E:
        # make sure one of them uses it (and that such a row exists) most of the time
        if rng.random() < 0.7:
            erows = [r_ for r_ in rows if r_['expect']]
            if not erows:
                rows[0]['expect'] = True
                erows = [rows[0]]
            erows[0]['amb'] = 1
            if rng.random() < 0.7 and amb2['pset']['t'] != 'kl':      # (ECOS gives up on KL + epigraph)
                # ... and make that row matter: E(e) <= t with a new static variable t that is
                # paid for in the objective, so the optimum moves with the worst-case
                # expectation over the second ambiguity set
                xvars.append({'n': 1, 'partition': [list(range(Sn))], 'mask': None, 'order': [0],
                              'M': 15.0})
                for e_ in pieces + [r_['e'] for r_ in rows]:
                    e_['a'].append([0.0])
                    e_['P'].append(np.zeros((1, nz)).tolist())
                erows[0]['sense'] = 'le'
                erows[0]['e']['a'][-1] = [-1.0]
                for pc_ in pieces:
                    pc_['a'][-1] = [1.0 if mode == 'minsup' else -1.0]
    spec = {'amb2': amb2, 'S': Sn, 'labels': labels, 'nz': nz, 'supports': supports,
            'shared': bool(shared),
            'centers': centers.tolist(), 'pset': pset, 'moments': moments, 'xvars': xvars,
            'wass': wass is not None,
            'mode': mode, 'pieces': pieces, 'rows': rows,
            'spell': int(rng.integers(1 << 30))}
    _calibrate(spec, rng)
    return spec


def value_coeffs(spec, e, sol, s):
    """alpha, beta of value(z) = alpha + beta.z in scenario s for decisions `sol`
    (sol[v] = (x0[event], X[event]) lists indexed by event)."""
    nz = spec['nz']
    alpha = e['k']
    beta = np.array(e['q'], float).copy()
    for vi, v in enumerate(spec['xvars']):
        ev = event_of(v['partition'], s)
        x0 = np.asarray(sol[vi][0][ev], float)
        X = np.asarray(sol[vi][1][ev], float)
        a = np.array(e['a'][vi], float)
        alpha += float(a @ x0)
        beta = beta + X.T @ a + np.array(e['P'][vi], float).T @ x0
    return float(alpha), beta


def event_of(partition, s):
    for i, blk in enumerate(partition):
        if s in blk:
            return i
    raise KeyError(s)


def view(spec, row=None):
    """The spec as seen by a row: rows with their own ambiguity set (row['amb'] == 1) use
    spec['amb2'] for supports / probability set / moments."""
    if row is None or not row.get('amb') or not spec.get('amb2'):
        return spec
    v = dict(spec)
    v.update(spec['amb2'])
    return v


def zero_solution(spec):
    return [([np.zeros(v['n']) for _ in v['partition']],
             [np.zeros((v['n'], spec['nz'])) for _ in v['partition']]) for v in spec['xvars']]


def _calibrate(spec, rng):
    """Right-hand sides such that the all-zero decision is feasible with slack."""
    sol = zero_solution(spec)
    advs = {}
    for row in spec['rows']:
        sgn = 1 if row['sense'] == 'le' else -1
        vw = view(spec, row)
        key = 1 if vw is not spec else 0
        if key not in advs:
            advs[key] = Adversary(vw, rng=np.random.default_rng(1))
        adv = advs[key]
        if row['expect']:
            val, _ = adv.worst_expectation([row['e']], sol, sgn)
        else:
            val = -np.inf
            for s in range(spec['S']):
                al, be = value_coeffs(spec, row['e'], sol, s)
                z, _ = S.maximize(vw['supports'][s], sgn * be, spec['nz'],
                                  z0=np.array(vw['centers'][s]))
                if z is not None:
                    val = max(val, sgn * (al + be @ z))
            if not np.isfinite(val):
                val = 5.0
        if val is None:
            val = 5.0
        row['rhs'] = float(np.round(sgn * (val + rng.uniform(0.05, 1.0)), 3))


# ------------------------------------------------------------------ probability sets

def pset_rows(pset, Sn):
    """Polyhedral description A p <= b, Aeq p = beq (None if not polyhedral)."""
    t = pset['t']
    ph = np.array(pset['phat'], float)
    A, b = [-np.eye(Sn)], [np.zeros(Sn)]
    Aeq, beq = [np.ones((1, Sn))], [np.ones(1)]
    if t == 'fixed':
        Aeq.append(np.eye(Sn))
        beq.append(ph)
    elif t == 'free':
        pass
    elif t == 'box':
        A += [np.eye(Sn), -np.eye(Sn)]
        b += [np.array(pset['hi']), -np.array(pset['lo'])]
    elif t == 'norminf':
        A += [np.eye(Sn), -np.eye(Sn)]
        b += [ph + pset['r'], -(ph - pset['r'])]
    elif t == 'norm1':
        for sg in itertools.product([-1, 1], repeat=Sn):
            A.append(np.array(sg, float).reshape(1, -1))
            b.append(np.array([pset['r'] + np.array(sg) @ ph]))
    else:
        return None
    return np.vstack(A), np.concatenate(b), np.vstack(Aeq), np.concatenate(beq)


def pset_viol(pset, p):
    p = np.asarray(p, float)
    ph = np.array(pset['phat'], float)
    v = max(np.max(-p), abs(p.sum() - 1))
    t = pset['t']
    if t == 'fixed':
        v = max(v, np.max(np.abs(p - ph)))
    elif t == 'box':
        v = max(v, np.max(p - np.array(pset['hi'])), np.max(np.array(pset['lo']) - p))
    elif t in ('norm1', 'norminf', 'norm2'):
        o = {'norm1': 1, 'norminf': np.inf, 'norm2': 2}[t]
        v = max(v, np.linalg.norm(p - ph, o) - pset['r'])
    elif t == 'kl':
        pp = np.maximum(p, 1e-300)
        v = max(v, float(np.sum(pp * np.log(pp / ph)) - pset['r']))
    return float(v)


def pset_samples(pset, Sn, rng, n=12):
    """Verified members of a non-polyhedral probability set (for the sampled adversary)."""
    ph = np.array(pset['phat'], float)
    out = [ph]
    for _ in range(n * 6):
        d = rng.normal(size=Sn)
        d -= d.mean()
        lo, hi = 0.0, 1.0
        for _ in range(30):
            mid = (lo + hi) / 2
            if pset_viol(pset, ph + mid * d) <= 0:
                lo = mid
            else:
                hi = mid
        p = ph + lo * d
        if pset_viol(pset, p) <= 1e-9:
            out.append(p)
        if len(out) >= n:
            break
    return out


# ------------------------------------------------------------------ adversary

class Adversary:
    """Worst-case expectation of max (sgn=+1) / -min (sgn=-1) of affine pieces for fixed
    decisions, as an LP over weights on support points."""

    def __init__(self, spec, rng=None):
        self.spec = spec
        self.rng = rng or np.random.default_rng(0)
        self.pts = []
        self.exact = True
        for s in range(spec['S']):
            pts, ex = support_points(spec['supports'][s], spec['nz'], self.rng)
            self.pts.append(pts)
            self.exact = self.exact and ex
        self.prow = pset_rows(spec['pset'], spec['S'])
        if self.prow is None:
            self.exact = False
            self.psamples = pset_samples(spec['pset'], spec['S'], self.rng)
        for mo in spec['moments']:
            if S.classify(mo['prims']) != 'poly':
                self.exact = False

    def add_points(self, s, zs):
        for z in zs:
            if z is not None and S.set_viol(self.spec['supports'][s], z) <= 1e-7 and \
                    not any(np.allclose(z, q, atol=1e-9) for q in self.pts[s]):
                self.pts[s].append(np.asarray(z, float))

    def _lp(self, fvals, fixed_p=None):
        """max sum w[s,v] f[s][v] over the ambiguity set restricted to the atoms."""
        spec = self.spec
        Sn, nz = spec['S'], spec['nz']
        idx = []
        for s in range(Sn):
            for v in range(len(self.pts[s])):
                idx.append((s, v))
        nw = len(idx)
        nvar = nw + Sn          # w then p
        c = np.zeros(nvar)
        for j, (s, v) in enumerate(idx):
            c[j] = -fvals[s][v]
        Aeq, beq, Aub, bub = [], [], [], []
        for s in range(Sn):
            row = np.zeros(nvar)
            for j, (s2, v) in enumerate(idx):
                if s2 == s:
                    row[j] = 1
            row[nw + s] = -1
            Aeq.append(row)
            beq.append(0.0)
        if fixed_p is not None:
            for s in range(Sn):
                row = np.zeros(nvar)
                row[nw + s] = 1
                Aeq.append(row)
                beq.append(fixed_p[s])
        else:
            A, b, Ae, be = self.prow
            for r in range(A.shape[0]):
                row = np.zeros(nvar)
                row[nw:] = A[r]
                Aub.append(row)
                bub.append(b[r])
            for r in range(Ae.shape[0]):
                row = np.zeros(nvar)
                row[nw:] = Ae[r]
                Aeq.append(row)
                beq.append(be[r])
        for mo in spec['moments']:
            ev = mo['event']
            # G mu <= h with mu = sum w v / sum p  ->  G (sum w v) - h sum p <= 0
            if S.classify(mo['prims']) != 'poly':
                continue
            G, h, Ge, he = hrep(mo['prims'], nz)
            for Gm, hm, kind in ((G, h, 'ub'), (Ge, he, 'eq')):
                for r in range(Gm.shape[0]):
                    row = np.zeros(nvar)
                    for j, (s, v) in enumerate(idx):
                        if s in ev:
                            row[j] = Gm[r] @ self.pts[s][v]
                    for s in ev:
                        row[nw + s] -= hm[r]
                    if kind == 'ub':
                        Aub.append(row)
                        bub.append(0.0)
                    else:
                        Aeq.append(row)
                        beq.append(0.0)
        res = linprog(c, A_ub=np.array(Aub) if Aub else None, b_ub=np.array(bub) if bub else None,
                      A_eq=np.array(Aeq), b_eq=np.array(beq), bounds=[(0, None)] * nvar,
                      method='highs')
        if res.status != 0:
            return None
        w = res.x[:nw]
        p = res.x[nw:]
        atoms = [(s, self.pts[s][v], float(w[j])) for j, (s, v) in enumerate(idx) if w[j] > 1e-12]
        return -res.fun, {'p': p, 'atoms': atoms}

    def worst_expectation(self, pieces, sol, sgn):
        """sup over the ambiguity set of E[ max_i sgn*piece_i ].  Returns (value, dist)."""
        spec = self.spec
        Sn = spec['S']
        # enrich atoms with the maximisers of each piece's gradient
        for s in range(Sn):
            zs = []
            for e in pieces:
                al, be = value_coeffs(spec, e, sol, s)
                z, _ = S.maximize(spec['supports'][s], sgn * be, spec['nz'],
                                  z0=np.array(spec['centers'][s]))
                zs.append(z)
            self.add_points(s, zs)
        fvals = []
        for s in range(Sn):
            co = [value_coeffs(spec, e, sol, s) for e in pieces]
            fvals.append([max(sgn * (al + be @ v) for al, be in co) for v in self.pts[s]])
        if self.prow is not None:
            r = self._lp(fvals)
            if r is None:
                return None, None
            return r
        best = (None, None)
        for p in self.psamples:
            r = self._lp(fvals, fixed_p=p)
            if r is not None and (best[0] is None or r[0] > best[0]):
                best = r
        return best


def verify_distribution(spec, dist, tol=1e-7):
    """Re-verifies membership of a discrete distribution in the ambiguity set."""
    p = np.asarray(dist['p'], float)
    Sn, nz = spec['S'], spec['nz']
    if pset_viol(spec['pset'], p) > 1e-6:
        return 'probabilities outside the probability set (%g)' % pset_viol(spec['pset'], p)
    mass = np.zeros(Sn)
    mean = np.zeros((Sn, nz))
    for s, z, w in dist['atoms']:
        if w < -1e-12:
            return 'negative weight'
        if S.set_viol(spec['supports'][s], z) > 1e-6:
            return 'atom outside its support'
        mass[s] += w
        mean[s] += w * np.asarray(z)
    if np.max(np.abs(mass - p)) > 1e-7:
        return 'weights do not add up to the scenario probabilities'
    for mo in spec['moments']:
        ev = mo['event']
        tot = mass[ev].sum()
        if tot <= 1e-12:
            continue
        mu = mean[ev].sum(axis=0) / tot
        if S.set_viol(mo['prims'], mu) > 1e-6:
            return 'conditional mean outside its expectation set'
    return None


def expectation(spec, pieces, sol, dist, sgn):
    tot = 0.0
    for s, z, w in dist['atoms']:
        vals = []
        for e in pieces:
            al, be = value_coeffs(spec, e, sol, s)
            vals.append(sgn * (al + be @ np.asarray(z)))
        tot += w * max(vals)
    return tot


# ------------------------------------------------------------------ RSOME build

class Built:
    pass


def scen_selector(fset, spec, ev, rng):
    """Scen object for the event (list of scenario positions)."""
    labels = spec['labels']
    Sn = spec['S']
    if ev[0] > 0 and (sum(ev) + 3 * len(ev) + Sn) % 3 == 0:
        # chained selection: a tail of the scenarios first, positions relative to it afterwards
        # (decided without a random draw so that the other cases keep theirs)
        a = ev[0]
        sub = fset.iloc[a:] if (labels is None or len(ev) % 2) else fset.loc[labels[a]:]
        rel = [i - a for i in ev]
        try:
            return sub.iloc[rel] if len(rel) > 1 else sub.iloc[rel[0]]
        except IndexError:
            # loud in the current tree: the chained selector indexes the probabilities of the
            # tail with absolute scenario numbers; fall back to a direct selection
            pass
    if len(ev) == Sn and rng.random() < 0.5:
        return fset
    if labels is None:
        if ev == list(range(ev[0], ev[-1] + 1)) and rng.random() < 0.4:
            return fset.iloc[ev[0]:ev[-1] + 1]
        return fset[ev] if len(ev) > 1 or rng.random() < 0.5 else fset[ev[0]]
    if rng.random() < 0.5:
        return fset.iloc[ev] if len(ev) > 1 else fset.iloc[ev[0]]
    lab = [labels[i] for i in ev]
    return fset.loc[lab] if len(lab) > 1 else fset.loc[lab[0]]


def _probset(fset, p, ps, arr, rso):
    ph = arr(ps['phat'])
    if ps['t'] == 'fixed':
        fset.probset(p == ph)
    elif ps['t'] == 'box':
        fset.probset(p >= arr(ps['lo']), p <= arr(ps['hi']))
    elif ps['t'] == 'norm1':
        fset.probset(rso.norm(p - ph, 1) <= ps['r'])
    elif ps['t'] == 'norminf':
        fset.probset(rso.norm(p - ph, 'inf') <= ps['r'])
    elif ps['t'] == 'norm2':
        fset.probset(rso.norm(p - ph, 2) <= ps['r'])
    elif ps['t'] == 'kl':
        fset.probset(rso.kldiv(p, ph, ps['r']))


def build(spec, variant=None):
    try:
        return _build(spec, variant)
    finally:
        S.ARR[0] = None


def _build(spec, variant=None):
    import rsome as rso
    from rsome import dro
    variant = variant or {}
    rng = np.random.default_rng(spec['spell'] + int(variant.get('respell', 0)))
    B = Built()
    B.arrays = []

    B.digests = []

    def arr(a):
        a = user_array(a, variant.get('arr'))
        B.arrays.append(a)
        B.digests.append(_digest(a))
        return a

    S.ARR[0] = arr

    Sn, nz = spec['S'], spec['nz']
    labels = spec['labels']
    m = dro.Model(Sn if labels is None else labels)
    B.model = m
    z = m.rvar(nz)
    B.z = z
    xs = []
    for v in spec['xvars']:
        x = m.dvar(v['n'])
        xs.append(x)
    B.xs = xs
    fset = m.ambiguity()
    B.fset = fset
    # supports
    def shared_base(cons):
        # variant 'dup_set': collections that share a base set, so that the same constraint OBJECT
        # reaches suppset()/exptset() more than once (redundant, the set is unchanged)
        cons = list(cons)
        if variant.get('dup_set') and len(cons) >= 2:
            base_ = tuple(cons[:2])
            return [(base_, cons[2:]), (base_, cons[-1])]
        return cons

    if spec['shared'] and rng.random() < 0.6:
        fset.suppset(shared_base(S.build_rsome(spec['supports'][0], z, rng)))
    else:
        for s in range(Sn):
            sel = scen_selector(fset, spec, [s], rng)
            sel.suppset(*shared_base(S.build_rsome(spec['supports'][s], z, rng)))
    # expectation sets
    for mo in spec['moments']:
        sel = scen_selector(fset, spec, mo['event'], rng)
        cons = list(S.build_rsome(mo['prims'], rso.E(z), rng))
        split = variant.get('split_moments', rng.random() < 0.3)
        if split and len(cons) >= 2:
            # the same event declared in two calls (same selector object, or the event selected
            # a second time): the calls accumulate
            k_ = int(rng.integers(1, len(cons)))
            sel.exptset(cons[:k_])
            sel2 = sel if rng.random() < 0.5 else scen_selector(fset, spec, mo['event'], rng)
            sel2.exptset(*cons[k_:])
        else:
            sel.exptset(shared_base(cons))
    fset2 = None
    if spec.get('amb2'):
        a2 = spec['amb2']
        fset2 = m.ambiguity()
        for s in range(Sn):
            scen_selector(fset2, spec, [s], rng).suppset(*S.build_rsome(a2['supports'][s], z, rng))
        for mo in a2['moments']:
            scen_selector(fset2, spec, mo['event'], rng).exptset(
                S.build_rsome(mo['prims'], rso.E(z), rng))
        _probset(fset2, m.p, a2['pset'], arr, rso)
    B.fset2 = fset2
    if variant.get('after_sets'):
        variant['after_sets'](B, rng)
    # probabilities
    _probset(fset, m.p, spec['pset'], arr, rso)
    # adaptation (variant 'late_adapt': the calls are made after all constraints were added, by
    # the caller, through B.do_adapt - 'event': only the event-wise ones, 'all': every call)
    def do_adapt(which, arng):
        for v, x in zip(spec['xvars'], xs):
            part = v['partition']
            # the block left implicit is the one that is declared last in `order`
            order = [i for i in v['order']]
            for bi in order[:-1] if len(part) > 1 and 'event' in which else []:
                blk = part[bi]
                if labels is None:
                    x.adapt(blk if len(blk) > 1 or arng.random() < 0.5 else blk[0])
                else:
                    lab = [labels[i] for i in blk]
                    x.adapt(lab if len(lab) > 1 or arng.random() < 0.5 else lab[0])
            if v['mask'] is not None and 'affine' in which:
                mk = np.array(v['mask'])
                if mk.all() and arng.random() < 0.5:
                    x.adapt(z)
                else:
                    for i in range(v['n']):
                        if mk[i].all() and arng.random() < 0.5:
                            x[i].adapt(z)
                        else:
                            for j in range(nz):
                                if mk[i, j]:
                                    x[i].adapt(z[j])

    late = variant.get('late_adapt')
    B.pending_adapt = None
    if not late:
        do_adapt(('event', 'affine'), rng)
    else:
        arng_ = np.random.default_rng(spec['spell'] + 99)
        if late == 'event':
            do_adapt(('affine',), rng)
            B.pending_adapt = lambda: do_adapt(('event',), arng_)
        else:
            B.pending_adapt = lambda: do_adapt(('event', 'affine'), arng_)

    def expr(e):
        terms = []
        for vi, x in enumerate(xs):
            a = np.array(e['a'][vi], float)
            if a.any() or vi == 0:
                terms.append(arr(a) @ x if rng.random() < 0.5 else (x * arr(a)).sum())
            P = np.array(e['P'][vi], float)
            if P.any():
                r = rng.random()
                if r < 0.5:
                    terms.append(x @ (arr(P) @ z))
                else:
                    terms.append((arr(P.T) @ x) @ z)
        q = np.array(e['q'], float)
        if q.any():
            terms.append(arr(q) @ z if rng.random() < 0.5 else (z * arr(q)).sum())
        out = terms[0]
        for t in terms[1:]:
            out = out + t
        return out + e['k']

    B.expr = expr
    pcs = [expr(e) for e in spec['pieces']]
    if len(pcs) == 1:
        obj = rso.E(pcs[0])
    else:
        obj = rso.E(rso.maxof(*pcs)) if spec['mode'] == 'minsup' else rso.E(rso.minof(*pcs))
    if spec['mode'] == 'minsup':
        m.minsup(obj, fset)
    else:
        m.maxinf(obj, fset)
    for v, x in zip(spec['xvars'], xs):
        if v['mask'] is None:
            m.st(x <= v['M'])
            m.st(x >= -v['M'])
        else:
            m.st(x <= v['M'])
            m.st(x >= -v['M'])
    B.add_row = None

    def add_row(row, lhs=None):
        lhs = expr(row['e']) if lhs is None else lhs
        if row['expect']:
            lhs = rso.E(lhs)
        c = (lhs <= row['rhs'] if row['sense'] == 'le' else lhs >= row['rhs'])
        if row.get('amb') and fset2 is not None and hasattr(c, 'forall'):
            if variant.get('late_forall') and type(c).__name__ in ('DecRoConstr', 'DecLinConstr'):
                # enters the model with the default ambiguity set; the caller attaches the
                # second one to the same object later (forall() works in place for these)
                m.st(c)
                B.pending_forall.append((c, fset2))
                return
            c = c.forall(fset2)
        m.st(c)

    B.pending_forall = []
    B.add_row = add_row
    for row in spec['rows']:
        add_row(row)
    if variant.get('after_rows'):
        variant['after_rows'](B, rng)
    return B


def read_solution(spec, B):
    """sol[v] = (x0 list per event, X list per event) as the user reads them with get()."""
    import pandas as pd
    Sn, nz = spec['S'], spec['nz']
    out = []
    for v, x in zip(spec['xvars'], B.xs):
        part = v['partition']
        g = x.get()
        x0 = []
        for blk in part:
            if isinstance(g, pd.Series):
                x0.append(np.asarray(g.iloc[blk[0]], float).reshape(-1))
            else:
                x0.append(np.asarray(g, float).reshape(-1))
        X = []
        if v['mask'] is not None:
            gz = x.get(B.z)
            for blk in part:
                c = gz.iloc[blk[0]] if isinstance(gz, pd.Series) else gz
                X.append(np.nan_to_num(np.asarray(c, float).reshape(v['n'], nz), nan=0.0))
        else:
            X = [np.zeros((v['n'], nz)) for _ in part]
        out.append((x0, X))
    return out


# ------------------------------------------------------------------ reference optimum

def all_requirements(spec):
    """(kind, pieces, sgn, rhs, tag): expectation requirements sup E[max sgn*pieces] <= sgn*rhs,
    scenario-wise requirements, bounds on decisions."""
    reqs = []
    for k, row in enumerate(spec['rows']):
        sgn = 1 if row['sense'] == 'le' else -1
        reqs.append(('E' if row['expect'] else 'R', [row['e']], sgn, row['rhs'],
                     'row%d%s' % (k, '@amb2' if (row.get('amb') and spec.get('amb2')) else '')))
    zero = lambda: {'a': [[0.0] * v['n'] for v in spec['xvars']],
                    'P': [np.zeros((v['n'], spec['nz'])).tolist() for v in spec['xvars']],
                    'q': [0.0] * spec['nz'], 'k': 0.0}
    for vi, v in enumerate(spec['xvars']):
        for i in range(v['n']):
            e = zero()
            e['a'][vi][i] = 1.0
            reqs.append(('R', [e], 1, v['M'], 'x%d[%d]<=M' % (vi, i)))
            reqs.append(('R', [e], -1, -v['M'], 'x%d[%d]>=-M' % (vi, i)))
    return reqs


class Ref:
    pass


def reference(spec, max_iter=60, tol=1e-7):
    """Cutting-plane reference: master LP over event-wise (affine) decisions against finitely
    many verified distributions / realisations; separation by the adversary."""
    Sn, nz = spec['S'], spec['nz']
    adv = Adversary(spec, rng=np.random.default_rng(2))
    adv2 = None
    vw2 = spec
    if spec.get('amb2'):
        vw2 = dict(spec)
        vw2.update(spec['amb2'])
        adv2 = Adversary(vw2, rng=np.random.default_rng(3))
    R = Ref()
    R.exact = adv.exact and (adv2 is None or adv2.exact)
    # variable layout
    off = 0
    lay = []
    for v in spec['xvars']:
        ne = len(v['partition'])
        x0 = [list(range(off + e * v['n'], off + (e + 1) * v['n'])) for e in range(ne)]
        off += ne * v['n']
        Xi = []
        for e in range(ne):
            idx = -np.ones((v['n'], nz), int)
            if v['mask'] is not None:
                mk = np.array(v['mask'])
                for a in range(v['n']):
                    for b in range(nz):
                        if mk[a, b]:
                            idx[a, b] = off
                            off += 1
            Xi.append(idx)
        lay.append((x0, Xi))
    tvar = off
    nbase = off + 1
    osgn = 1 if spec['mode'] == 'minsup' else -1

    def lin(e, s, z):
        row = np.zeros(nbase)
        z = np.asarray(z, float)
        for vi, v in enumerate(spec['xvars']):
            ev = event_of(v['partition'], s)
            a = np.array(e['a'][vi], float)
            P = np.array(e['P'][vi], float)
            x0, Xi = lay[vi]
            for i in range(v['n']):
                row[x0[ev][i]] += a[i] + P[i] @ z
                for j in range(nz):
                    if Xi[ev][i, j] >= 0:
                        row[Xi[ev][i, j]] += a[i] * z[j]
        return row, float(np.array(e['q'], float) @ z + e['k'])

    def unpack(v_):
        sol = []
        for vi, v in enumerate(spec['xvars']):
            x0, Xi = lay[vi]
            xs0 = [v_[x0[e]] for e in range(len(v['partition']))]
            Xs = []
            for e in range(len(v['partition'])):
                Xm = np.zeros((v['n'], nz))
                mk = Xi[e] >= 0
                Xm[mk] = v_[Xi[e][mk]]
                Xs.append(Xm)
            sol.append((xs0, Xs))
        return sol

    reqs = all_requirements(spec)
    reqs.append(('O', spec['pieces'], osgn, None, 'obj'))
    # cuts: robust cuts are plain rows; expectation cuts need epigraph variables per atom
    A, b = [], []
    extra = [0]

    def add_robust_cut(e, sgn, rhs, s, z):
        row, c = lin(e, s, z)
        A.append((sgn * row, {}))
        b.append(sgn * (rhs - c))

    def add_dist_cut(pieces, sgn, rhs, dist, is_obj):
        # sum_atoms w * tau_atom <= sgn*rhs (or <= t), tau_atom >= sgn*piece_i(atom)
        taus = {}
        for (s, z, w) in dist['atoms']:
            k = nbase + extra[0]
            extra[0] += 1
            taus[k] = w
            for e in pieces:
                row, c = lin(e, s, z)
                A.append((sgn * row, {k: -1.0}))
                b.append(-sgn * c)
        base = np.zeros(nbase)
        if is_obj:
            base[tvar] = -1.0
            A.append((base, taus))
            b.append(0.0)
        else:
            A.append((base, taus))
            b.append(sgn * rhs)

    # initial cuts: centres
    centre = {'p': np.array(spec['pset']['phat'], float),
              'atoms': [(s, np.array(spec['centers'][s], float), spec['pset']['phat'][s])
                        for s in range(Sn)]}
    centre2 = centre
    if adv2 is not None:
        centre2 = {'p': np.array(vw2['pset']['phat'], float),
                   'atoms': [(s, np.array(vw2['centers'][s], float), vw2['pset']['phat'][s])
                             for s in range(Sn)]}
    for kind, pieces, sgn, rhs, tag in reqs:
        use2 = tag.endswith('@amb2')
        if kind == 'R':
            for s in range(Sn):
                for z in (adv2 if use2 else adv).pts[s][:2 * nz + 2]:
                    add_robust_cut(pieces[0], sgn, rhs, s, z)
        else:
            add_dist_cut(pieces, sgn, rhs, centre2 if use2 else centre, kind == 'O')
    bounds0 = []
    for vi, v in enumerate(spec['xvars']):
        pass
    R.iterations = 0
    R.status = 'maxiter'
    for it in range(max_iter):
        R.iterations = it + 1
        n = nbase + extra[0]
        M = np.zeros((len(A), n))
        for i, (base, ex) in enumerate(A):
            M[i, :nbase] = base
            for k, val in ex.items():
                M[i, k] = val
        c = np.zeros(n)
        c[tvar] = 1.0
        bnds = [(-1e4, 1e4)] * nbase + [(None, None)] * extra[0]
        res = linprog(c, A_ub=M, b_ub=np.array(b), bounds=bnds, method='highs')
        if res.status == 2:
            R.status = 'infeasible'
            return R
        if res.status != 0:
            R.status = 'lp_status_%d' % res.status
            return R
        v_ = res.x[:nbase]
        sol = unpack(v_)
        added = 0
        for kind, pieces, sgn, rhs, tag in reqs:
            use2 = tag.endswith('@amb2')
            vw = vw2 if use2 else spec
            if kind == 'R':
                for s in range(Sn):
                    al, be = value_coeffs(spec, pieces[0], sol, s)
                    z, ex = S.maximize(vw['supports'][s], sgn * be, nz,
                                       z0=np.array(vw['centers'][s]))
                    if z is None:
                        R.status = 'oracle_failed'
                        return R
                    if not ex:
                        R.exact = False
                    if sgn * (al + be @ z) - sgn * rhs > tol * (1 + abs(rhs)):
                        add_robust_cut(pieces[0], sgn, rhs, s, z)
                        added += 1
            else:
                val, dist = (adv2 if use2 else adv).worst_expectation(pieces, sol, sgn)
                if val is None:
                    R.status = 'adversary_failed'
                    return R
                lim = v_[tvar] if kind == 'O' else sgn * rhs
                if val - lim > tol * (1 + abs(lim)):
                    add_dist_cut(pieces, sgn, rhs, dist, kind == 'O')
                    added += 1
        if added == 0:
            R.status = 'optimal'
            break
    R.value = osgn * float(v_[tvar])
    R.sol = sol
    R.big_hit = bool(np.max(np.abs(v_)) > 0.99e4)
    if R.big_hit:
        R.status = 'unbounded_guard'
    R.exact = R.exact and adv.exact and (adv2 is None or adv2.exact)
    R.adv = adv
    R.adv2 = adv2
    return R
