"""C13 - decisions depend on uncertainty exactly as declared (non-anticipativity).

Four monitors:
 ident   - identification problems whose optimum pins down the event partition:
           min sum_s p_s x_s  s.t. x_s >= v_s   gives  sum_s p_s max_{s' in event(s)} v_s'
           (all partitions of <= 4 scenarios x declaration orders x label kinds), and the
           affine analogue that pins down the dependency mask;
 struct  - state invariant at a hook on dro.Model.rule_var / DecRule.to_affine: two scenarios
           share the solver columns of a decision entry iff they are in one declared event,
           and the non-zero pattern of the rule's z-coefficients equals the declared mask;
           behavioural: after solve y(z.assign(v)) does not move when v changes only in
           undeclared components and does move in declared ones;
 refine  - event partition of combined expressions equals the coarsest common refinement,
           for all pairs of partitions of <= 4 scenarios, through + - concat atoms expcone
           (icontract post-condition on comb_set is on);
 illegal - illegal declarations raise."""
import itertools
import warnings

import numpy as np
import pandas as pd

from rv import common as C
from rv import contracts
from rv import dromodel as DR
from rv import romodel as R

TIMEOUT = {'quick': 1500, 'thorough': 6 * 3600}
ANCHORS = ['lp:DecVar.evtadapt', 'lp:DecVarSub.affadapt', 'lp:DecRule.adapt',
           'subroutines:comb_set', 'subroutines:event_dict', 'dro:Model.rule_var',
           'lp:DecRule.to_affine', 'dro:Model.ro_to_roc']
FLOORS = {'judged': {'quick': 600, 'thorough': 6000}, 'nontrivial': 150,
          'counters': {'contract:comb_set': 200, 'contract:event_dict': 500,
                       'struct_entries_checked': 350, 'ident_solved': 150}}
RULE = ('ident: every partition of 2-4 scenarios (5 in thorough) with random declaration order and '
        'label kind, random values and probabilities; struct: random dro and ro models from the '
        'C03/C01 generators; refine: all ordered pairs of partitions of <= 4 scenarios x operator; '
        'illegal: fixed table. Non-trivial: partition neither trivial nor discrete or mask neither '
        'full nor empty (ident/struct), every refine pair and illegal entry; distinct by '
        '(mode, partition(s), order, labels, operator)')
ASSUMPTIONS = ['identification optimum is unique in value for generic data']

PARTS = {n: list(DR.partitions(n)) for n in range(1, 6)}
REFINE_OPS = ['add', 'sub', 'concat', 'norm', 'expcone', 'mulc_add', 'convex_add']
ILLEGAL = ['scenario adapted twice', 'scenario adapted twice (second call)',
           'random component adapted twice (dro)', 'random component adapted twice (ro)',
           'affine adapt of binary', 'affine adapt of integer', 'ldr adapt after use',
           'unknown scenario label', 'adaptive decision times random',
           'adaptive decision matmul random', 'adapt to non-random object',
           'ldr slice adapted twice', 'scenario twice in one call',
           'scenario twice in one call (after another event)']


def _refine_cases():
    out = []
    for n in (2, 3, 4):
        for p1 in PARTS[n]:
            for p2 in PARTS[n]:
                out.append((n, p1, p2))
    return out


REFINE = _refine_cases()
N_IDENT = {'quick': 400, 'thorough': 6000}
N_STRUCT = {'quick': 300, 'thorough': 5000}


def _n(tier):
    return N_IDENT[tier] + N_STRUCT[tier] + len(REFINE) + len(ILLEGAL) * 2


N_CASES = {'quick': _n('quick'), 'thorough': _n('thorough')}


def setup_worker(ctx):
    contracts.install_events(ctx)


def gen_case(rng, idx, tier):
    ni, ns = N_IDENT[tier], N_STRUCT[tier]
    if idx < ni:
        nmax = 4 if tier == 'quick' else 5
        n = 2 + idx % (nmax - 1)
        part = PARTS[n][(idx // (nmax - 1)) % len(PARTS[n])]
        order = list(range(len(part)))
        rng.shuffle(order)
        ph = rng.uniform(0.5, 1.5, n)
        ph = np.round(ph / ph.sum(), 3)
        ph[-1] = np.round(1 - ph[:-1].sum(), 3)
        return {'mode': 'ident', 'S': n, 'partition': part, 'order': order,
                'labels': ['int', 'str', 'custom'][int(rng.integers(3))],
                'v': np.round(rng.uniform(-2, 2, n), 2).tolist(), 'p': ph.tolist(),
                'size': int(rng.integers(1, 3)), 'affine': bool(rng.random() < 0.35),
                'mask': (rng.random(3) < 0.5).astype(int).tolist(),
                'sense': 'min' if rng.random() < 0.6 else 'max',
                'seed': int(rng.integers(1 << 30))}
    idx -= ni
    if idx < ns:
        if rng.random() < 0.6:
            return {'mode': 'struct', 'front': 'dro', 'spec': DR.gen(rng, tier)}
        return {'mode': 'struct', 'front': 'ro', 'spec': R.gen(rng, tier),
                'late_rvar': bool(rng.random() < 0.3)}
    idx -= ns
    if idx < len(REFINE):
        n, p1, p2 = REFINE[idx]
        return {'mode': 'refine', 'S': n, 'p1': p1, 'p2': p2,
                'op': REFINE_OPS[int(rng.integers(len(REFINE_OPS)))],
                'labels': ['int', 'str'][int(rng.integers(2))]}
    idx -= len(REFINE)
    return {'mode': 'illegal', 'entry': ILLEGAL[idx % len(ILLEGAL)], 'variant': idx // len(ILLEGAL)}


def _labels(kind, n):
    if kind == 'int':
        return None
    if kind == 'str':
        return ['s%c' % (97 + i) for i in range(n)]
    return [5 * (i + 1) for i in range(n)]


def _declare(x, part, order, labels, rng=None):
    for bi in order[:-1] if len(part) > 1 else []:
        blk = part[bi]
        lab = blk if labels is None else [labels[i] for i in blk]
        x.adapt(lab if len(lab) > 1 else (lab[0] if (rng is None or rng.random() < 0.5) else lab))


def run_case(spec, ctx):
    return {'ident': run_ident, 'struct': run_struct, 'refine': run_refine,
            'illegal': run_illegal}[spec['mode']](spec, ctx)


# ------------------------------------------------------------------ ident

def run_ident(spec, ctx):
    import rsome as rso
    from rsome import dro
    rng = np.random.default_rng(spec['seed'])
    n = spec['S']
    labels = _labels(spec['labels'], n)
    part = spec['partition']
    v = np.array(spec['v'], float)
    p = np.array(spec['p'], float)
    sgn = 1 if spec['sense'] == 'min' else -1
    m = dro.Model(n if labels is None else labels)
    k = spec['size']
    x = m.dvar(k)
    z = m.rvar(4)            # z[0]: scenario value; z[1:4]: free components in [0,1]
    fset = m.ambiguity()
    for s in range(n):
        lo = np.array([v[s], 0, 0, 0.0])
        hi = np.array([v[s], 1, 1, 1.0])
        (fset[s] if labels is None else fset.loc[labels[s]]).suppset(z >= lo, z <= hi)
        (fset[s] if labels is None else fset.loc[labels[s]]).exptset(
            rso.E(z)[1:] == np.full(3, 0.5))
    fset.probset(m.p == p)
    _declare(x, part, spec['order'], labels, rng)
    # a second decision with its own partition, declared last (it plays no role)
    other = PARTS[n][spec['seed'] % len(PARTS[n])]
    x_other = m.dvar(1)
    _declare(x_other, other, list(range(len(other))), labels, rng)
    if spec['seed'] % 3 == 0:
        x_other.adapt(z[3])
    mask = np.array(spec['mask'])
    affine = spec['affine'] and mask.any()
    if affine:
        for j in range(3):
            if mask[j]:
                x.adapt(z[1 + j])
    w = np.array([1.0, 0.5][:k])
    c = np.array([0.7, -0.4, 0.9])          # generic coefficients of the free components
    if spec['sense'] == 'min':
        m.minsup(rso.E(w @ x), fset)
        # x_i(s,z) >= v_s + c.z[1:]  for all z
        for i in range(k):
            m.st(x[i] >= z[0] + c @ z[1:])
    else:
        m.maxinf(rso.E(w @ x), fset)
        for i in range(k):
            m.st(x[i] <= z[0] + c @ z[1:])
    m.st(x <= 50, x >= -50)
    m.st(x_other <= 1, x_other >= 0)
    try:
        C.solve(m, 'def')
    except Exception as e:
        ctx.count('rsome_raises:' + type(e).__name__)
        return {'status': 'skip', 'reason': 'rsome raised: %s: %s' % (type(e).__name__,
                                                                      str(e)[:60])}
    feats = {'mode': 'ident', 'S': n, 'partition': str(part), 'order': str(spec['order']),
             'labels': spec['labels'], 'affine': bool(affine), 'mask': str(mask.tolist()),
             'sense': spec['sense'], 'size': k}
    sig = '|'.join('%s=%s' % (kk, feats[kk]) for kk in sorted(feats))
    if not C.optimal(m):
        return {'status': 'violation', 'mechanism': 'ident_not_solved', 'features': feats,
                'sig': sig, 'nontrivial': True,
                'detail': {'what': 'identification model not solved',
                           'status': str(getattr(m.solution, 'status', None))}}
    ctx.count('ident_solved')
    # expected: per event e the decision is a single affine rule d_e + D_e.z[1:] with D on the
    # mask only; it must dominate v_s + c.z for all s in e, z in [0,1]^3; minimise its
    # expectation: E[z] free in [0,1]^3 -> worst case mean.  Closed form per event:
    #   declared components follow c exactly, undeclared ones are covered at their worst
    #   value (c_j^+ for min, c_j^- for max); constant = max/min over the event of v_s.
    def cover(j):
        if affine and mask[j]:
            return 0.5 * c[j]          # the rule follows c_j z_j exactly; E[z_j | s] = 0.5
        return max(c[j], 0.0) if sgn == 1 else min(c[j], 0.0)
    want = 0.0
    for blk in part:
        top = max(v[blk]) if sgn == 1 else min(v[blk])
        want += p[blk].sum() * (top + sum(cover(j) for j in range(3)))
    want *= w.sum()
    got = float(m.get())
    detail = []
    if abs(got - want) > 1e-6 * (1 + abs(want)):
        detail.append({'what': 'optimum does not match the declared event partition',
                       'rsome': got, 'expected': float(want), 'partition': part,
                       'order': spec['order'], 'v': v.tolist(), 'p': p.tolist()})
    # the decision must be identical across scenarios of one event, different across events
    g = x.get()
    index = list(range(n)) if labels is None else labels
    if len(part) > 1:
        if not isinstance(g, pd.Series) or list(g.index) != list(index):
            detail.append({'what': 'x.get() is not a Series labelled by the scenarios'})
        else:
            for blk in part:
                for s in blk[1:]:
                    if not np.allclose(g.loc[index[s]], g.loc[index[blk[0]]], atol=1e-9):
                        detail.append({'what': 'decision differs inside one event',
                                       'event': blk})
            for blk in part:
                top = max(v[blk]) if sgn == 1 else min(v[blk])
                cov = sum(max(c[j], 0) if sgn == 1 else min(c[j], 0)
                          for j in range(3) if not (affine and mask[j]))
                if not np.allclose(np.asarray(g.loc[index[blk[0]]], float), top + cov,
                                   atol=1e-6):
                    detail.append({'what': 'event value is not the event-wise optimum',
                                   'event': blk, 'got': np.asarray(g.loc[index[blk[0]]]).tolist(),
                                   'expected': float(top + cov)})
    if affine and not detail:
        gz = x.get(z)
        first = gz.iloc[0] if isinstance(gz, pd.Series) else gz
        coef = np.asarray(first, float).reshape(k, 4)
        wantc = np.full((k, 4), np.nan)
        for j in range(3):
            if mask[j]:
                wantc[:, 1 + j] = c[j]
        if not (np.array_equal(np.isnan(coef), np.isnan(wantc)) and
                np.allclose(np.nan_to_num(coef), np.nan_to_num(wantc), atol=1e-6)):
            detail.append({'what': 'rule coefficients do not follow the declared mask',
                           'got': coef.tolist(), 'expected': wantc.tolist()})
    if detail:
        return {'status': 'violation', 'mechanism': 'ident:' + detail[0]['what'][:40],
                'detail': detail[:3], 'features': feats, 'sig': sig, 'nontrivial': True}
    nontriv = 1 < len(part) < n or (affine and 0 < mask.sum() < 3)
    return {'status': 'held', 'features': feats, 'sig': sig, 'nontrivial': bool(nontriv),
            'observed': {'optimum': got, 'expected': float(want)}}


# ------------------------------------------------------------------ struct

def _cols(aff, rows):
    sub = aff.linear[rows]
    return [frozenset(sub[i].indices[sub[i].data != 0].tolist()) for i in range(len(rows))]


def run_struct(spec, ctx):
    from rsome import lp
    detail = []
    if spec['front'] == 'dro':
        sp = spec['spec']
        try:
            B = DR.build(sp)
            B.model.do_math()
        except Exception as e:
            ctx.count('rsome_raises:' + type(e).__name__)
            return {'status': 'skip', 'reason': 'rsome raised: ' + type(e).__name__}
        m = B.model
        rules = m.rule_var()
        nz = sp['nz']
        nontriv = False
        for v, x in zip(sp['xvars'], B.xs):
            rows = list(range(x.first, x.first + x.size))
            per_s = []
            for s in range(sp['S']):
                dr = rules[s]
                aff = dr.affine if isinstance(dr, lp.RoAffine) else dr
                per_s.append(_cols(aff, rows))
            part = v['partition']
            if 1 < len(part) < sp['S']:
                nontriv = True
            for i in range(x.size):
                ctx.count('struct_entries_checked')
                for s1 in range(sp['S']):
                    for s2 in range(s1 + 1, sp['S']):
                        same_event = DR.event_of(part, s1) == DR.event_of(part, s2)
                        same_cols = per_s[s1][i] == per_s[s2][i]
                        if same_event != same_cols:
                            detail.append({'what': 'scenarios share solver columns although in '
                                           'different events' if same_cols else
                                           'scenarios of one event use different solver columns',
                                           'entry': i, 'scenarios': [s1, s2], 'partition': part})
            # z-coefficient pattern
            coef_cols = {}
            for s in range(sp['S']):
                dr = rules[s]
                mask = np.array(v['mask']) if v['mask'] is not None else np.zeros((v['n'], nz), int)
                if isinstance(dr, lp.RoAffine):
                    ra = dr.raffine
                    nr = ra.const.shape[1]
                    pat = np.zeros((x.size, nz), int)
                    for i in range(x.size):
                        for j in range(min(nz, nr)):
                            r = (x.first + i) * nr + j
                            rowm = ra.linear[r]
                            if rowm.nnz and np.any(rowm.data != 0):
                                pat[i, j] = 1
                    if not np.array_equal(pat, mask):
                        detail.append({'what': 'z-coefficient pattern of a dro decision differs '
                                       'from the declared mask', 'scenario': s,
                                       'declared': mask.tolist(), 'observed': pat.tolist()})
                    coef_cols.setdefault(s, {})
                    for i in range(x.size):
                        for j in range(min(nz, nr)):
                            rowm = ra.linear[(x.first + i) * nr + j]
                            coef_cols[s][(i, j)] = frozenset(
                                rowm.indices[rowm.data != 0].tolist())
                    if 0 < mask.sum() < mask.size:
                        nontriv = True
                elif mask.any():
                    detail.append({'what': 'declared affine adaptation is missing',
                                   'scenario': s})
            # coefficient variables are shared by two scenarios iff they are in one event
            for s1 in coef_cols:
                for s2 in coef_cols:
                    if s1 >= s2:
                        continue
                    same_event = DR.event_of(part, s1) == DR.event_of(part, s2)
                    for key, c1 in coef_cols[s1].items():
                        c2 = coef_cols[s2].get(key)
                        if not c1 and not c2:
                            continue
                        ctx.count('struct_entries_checked')
                        if (c1 == c2) != same_event:
                            detail.append({'what': 'rule coefficients shared across events' if
                                           c1 == c2 else 'rule coefficients differ inside one '
                                           'event', 'entry': list(key), 'scenarios': [s1, s2],
                                           'partition': part})
        feats = {'mode': 'struct', 'front': 'dro', 'S': sp['S'],
                 'partitions': sorted({len(v['partition']) for v in sp['xvars']}),
                 'affine': sorted({v['mask'] is not None for v in sp['xvars']})}
    else:
        sp = spec['spec']
        try:
            B = R.build(sp)
        except Exception as e:
            ctx.count('rsome_raises:' + type(e).__name__)
            return {'status': 'skip', 'reason': 'rsome raised: ' + type(e).__name__}
        nz = sp['nz']
        nontriv = False
        for r, y in zip(sp['rules'], B.ys):
            ra = y.to_affine()
            mask = np.array(r['mask'])
            ctx.count('struct_entries_checked', r['n'])
            if isinstance(ra, lp.RoAffine):
                Rr = ra.raffine
                nr = Rr.const.shape[1]
                pat = np.zeros((r['n'], nz), int)
                for i in range(r['n']):
                    for j in range(min(nz, nr)):
                        rowm = Rr.linear[i * nr + j]
                        if rowm.nnz and np.any(rowm.data != 0):
                            pat[i, j] = 1
                if not np.array_equal(pat, mask):
                    detail.append({'what': 'z-coefficient pattern of a decision rule differs from '
                                   'the declared mask', 'declared': mask.tolist(),
                                   'observed': pat.tolist()})
            elif mask.any():
                detail.append({'what': 'declared dependence of a rule is missing'})
            if 0 < mask.sum() < mask.size:
                nontriv = True
        # behavioural check after solve
        try:
            f = B.model.do_math()
            sname = R.pick_solver(f, np.random.default_rng(sp['spell']))
            if sname == 'grb':
                sname = 'eco' if C.cone_class(f) != 'L' else 'def'
            C.solve(B.model, sname)
            if C.optimal(B.model):
                zc = np.array(sp['dcenter'], float)
                off = np.concatenate(([0], np.cumsum(sp['zsplit'])))
                for r, y in zip(sp['rules'], B.ys):
                    mask = np.array(r['mask'])
                    if not mask.any():
                        continue

                    def val(zv):
                        args = [zb.assign(zv[off[b]:off[b + 1]]) for b, zb in enumerate(B.zs)]
                        return np.asarray(y(*args), float).reshape(-1)
                    base = val(zc)
                    for j in range(nz):
                        zv = zc.copy()
                        zv[j] += 0.37
                        moved = np.abs(val(zv) - base) > 1e-9
                        if np.any(moved & (mask[:, j] == 0)):
                            detail.append({'what': 'rule value moves with an undeclared random '
                                           'component', 'component': j,
                                           'mask_column': mask[:, j].tolist()})
                ctx.count('behavioural_checked')
        except Exception as e:
            ctx.count('behavioural_skipped:' + type(e).__name__)
        feats = {'mode': 'struct', 'front': 'ro', 'rules': len(sp['rules']),
                 'masks': sorted({'full' if np.array(r['mask']).all() else 'none'
                                  if not np.array(r['mask']).any() else 'partial'
                                  for r in sp['rules']})}
    sig = '|'.join('%s=%s' % (k, feats[k]) for k in sorted(feats))
    if detail:
        return {'status': 'violation', 'mechanism': 'struct:' + detail[0]['what'][:50],
                'detail': detail[:3], 'features': feats, 'sig': sig, 'nontrivial': True}
    return {'status': 'held', 'features': feats, 'sig': sig, 'nontrivial': bool(nontriv)}


# ------------------------------------------------------------------ refine

def _refinement(p1, p2, n):
    lab = {}
    for s in range(n):
        lab.setdefault((DR.event_of(p1, s), DR.event_of(p2, s)), []).append(s)
    return {frozenset(b) for b in lab.values()}


def run_refine(spec, ctx):
    import rsome as rso
    from rsome import dro
    n = spec['S']
    labels = _labels(spec['labels'], n)
    m = dro.Model(n if labels is None else labels)
    x1 = m.dvar(2)
    x2 = m.dvar(2)
    _declare(x1, spec['p1'], list(range(len(spec['p1']))), labels)
    _declare(x2, spec['p2'], list(range(len(spec['p2'])))[::-1], labels)
    op = spec['op']
    try:
        if op == 'add':
            e = x1 + x2
        elif op == 'sub':
            e = 2 * x1 - x2
        elif op == 'concat':
            e = rso.concat([x1, x2])
        elif op == 'norm':
            e = rso.norm(x1 - x2)
        elif op == 'expcone':
            e = rso.expcone(x1[0], x2[0], 1.0)
        elif op == 'mulc_add':
            e = np.array([1.0, 2.0]) * x1 + x2 @ np.array([[1.0, 0.0], [0.0, 1.0]])
        else:
            e = rso.norm(x1) + x2[0]
        got = {frozenset(b) for b in e.event_adapt}
    except Exception as ex:
        ctx.count('refine_raises:%s:%s' % (op, type(ex).__name__))
        return {'status': 'skip', 'reason': 'rsome raised for ' + op}
    want = _refinement(spec['p1'], spec['p2'], n)
    flat = sorted(s for b in e.event_adapt for s in b)
    feats = {'mode': 'refine', 'op': op, 'S': n, 'p1': str(spec['p1']), 'p2': str(spec['p2'])}
    sig = '|'.join('%s=%s' % (k, feats[k]) for k in sorted(feats))
    if got != want or flat != list(range(n)):
        return {'status': 'violation', 'mechanism': 'refinement:' + op, 'features': feats,
                'sig': sig, 'nontrivial': True,
                'detail': {'what': 'event partition of the combined expression is not the coarsest '
                           'common refinement', 'got': [sorted(b) for b in got],
                           'expected': [sorted(b) for b in want]}}
    return {'status': 'held', 'features': feats, 'sig': sig, 'nontrivial': True}


# ------------------------------------------------------------------ illegal

def run_illegal(spec, ctx):
    import rsome as rso
    from rsome import ro, dro
    name = spec['entry']
    var = spec['variant']
    labels = None if var == 0 else ['a', 'b', 'c']
    m = dro.Model(3 if labels is None else labels)
    x = m.dvar(2)
    z = m.rvar(2)
    lab = (lambda i: i) if labels is None else (lambda i: labels[i])
    stage = 'declare'
    raised = None
    try:
        if name == 'scenario adapted twice':
            x.adapt([lab(0), lab(1)])
            x.adapt([lab(1), lab(2)])
        elif name == 'scenario twice in one call':
            x.adapt([lab(1), lab(1)])
        elif name == 'scenario twice in one call (after another event)':
            x.adapt(lab(0))
            x.adapt([lab(1), lab(2), lab(1)])
        elif name == 'scenario adapted twice (second call)':
            x.adapt(lab(1))
            x.adapt(lab(1))
        elif name == 'random component adapted twice (dro)':
            x.adapt(z)
            x[0].adapt(z[1])
        elif name == 'random component adapted twice (ro)':
            r = ro.Model()
            zz = r.rvar(2)
            y = r.ldr(2)
            y.adapt(zz[0])
            y.adapt(zz)
        elif name == 'ldr slice adapted twice':
            r = ro.Model()
            zz = r.rvar(2)
            y = r.ldr(2)
            y[0].adapt(zz[1])
            y[0].adapt(zz[1])
        elif name == 'affine adapt of binary':
            b = m.dvar(2, 'B')
            b.adapt(z)
        elif name == 'affine adapt of integer':
            b = m.dvar(2, 'I')
            b[0].adapt(z[0])
        elif name == 'ldr adapt after use':
            r = ro.Model()
            zz = r.rvar(2)
            y = r.ldr(2)
            y.adapt(zz[0])
            r.st(y <= 1)
            y.adapt(zz[1])
        elif name == 'unknown scenario label':
            x.adapt('nope' if labels is not None else 17)
        elif name == 'adaptive decision times random':
            x.adapt(z)
            e = (x * z).sum()
            stage = 'st'
            m.st(e <= 1)
        elif name == 'adaptive decision matmul random':
            x[0].adapt(z[0])
            e = x @ z
            stage = 'st'
            m.st(e <= 1)
            # a partially adaptive array is only recognised at formulation time
            stage = 'do_math'
            fs = m.ambiguity() if False else None
            m.min(x.sum())
            m.do_math()
        elif name == 'adapt to non-random object':
            x.adapt(x)
        stage = 'accepted'
    except Exception as e:
        raised = '%s: %s' % (type(e).__name__, str(e)[:60])
    feats = {'mode': 'illegal', 'entry': name, 'labels': 'int' if labels is None else 'str'}
    sig = '|'.join('%s=%s' % (k, feats[k]) for k in sorted(feats))
    if raised is None:
        return {'status': 'violation', 'mechanism': 'illegal_accepted:' + name, 'features': feats,
                'sig': sig, 'nontrivial': True,
                'detail': {'what': 'illegal declaration accepted', 'entry': name}}
    ctx.count('illegal_raised')
    ctx.count('illegal_raised_at:' + stage)
    return {'status': 'held', 'features': feats, 'sig': sig, 'nontrivial': True,
            'observed': {'raised': raised}}
