"""C18 - soc_solve approximates exponential cones accurately and changes nothing else.

Differential monitor: the same model is solved exactly (ECOS exponential cone)
and by soc_solve() at degrees 4..8 with the SOC-capable interfaces; the
relative error must be <= 1e-3 and not grow with the degree, whenever every
exponent stays within [-4, 4] at the solutions.  State monitor: the program
returned by to_socp() must contain the original rows, senses, right-hand
sides, bounds, types and cones unchanged, the cached primal must not change,
and a following exact solve must still return the exact optimum."""
import copy
import warnings

import numpy as np
import scipy.sparse as sp

from rv import detmodel as D
from rv import atoms as AT
from rv import common as C
from rv import contracts

N_CASES = {'quick': 1200, 'thorough': 8000}
TIMEOUT = {'quick': 1500, 'thorough': 6 * 3600}
ANCHORS = ['gcp:GCProg.to_socp', 'ro:Model.soc_solve', 'dro:Model.soc_solve']
FLOORS = {'judged': {'quick': 625, 'thorough': 4500}, 'nontrivial': 40,
          'counters': {'accuracy_comparisons': 500, 'structure_checks': 250}}
RULE = ('models with exp, log, pexp, plog, entropy, softplus, summed exp/log, kldiv and expcone '
        'constraints (pinned-argument and free, alone or among LP/SOC atoms, ro and dro front '
        'ends), arguments boxed so that exponents stay in range; exact ECOS optimum vs '
        'soc_solve at degrees 4..8 with ECOS and Gurobi. Non-trivial: exponents verified within '
        '[-4,4] at both solutions and |exact| > 1e-3; distinct by (front, atoms, mode, degree '
        'set, interfaces)')
ASSUMPTIONS = ['ECOS\'s exponential-cone optimum is the exact reference',
               'the precondition is checked on the exponents at the exact and approximate '
               'solutions']

XATOMS = ['exp', 'log', 'pexp', 'plog', 'entropy', 'softplus', 'expsum', 'logsum']


def setup_worker(ctx):
    contracts.install_helpers(ctx, ['vert_comb'])


def gen_case(rng, idx, tier):
    pinned = rng.random() < 0.4
    atom = XATOMS[int(rng.integers(len(XATOMS)))]
    if pinned:
        spec = D.gen(rng, tier, cones='X', pinned=True, atom=atom)
        c = spec['cvx'][0]
        c['k'] = 0.0 if not isinstance(c['k'], list) else [0.0]
        nx = spec['nx'] - 1
        x0 = np.array(spec['lin'][0]['b'])
        u = np.array(c['M'])[:, :nx] @ x0 + np.array(c['v'])
        spec['expected'] = c['mult'] * float(np.sum(AT.value(c['atom'], u, c['params'])))
    else:
        cones = ['X', 'X', 'LQX', 'LQX'][int(rng.integers(4))]
        spec = D.gen(rng, tier, cones=cones, ints=bool(rng.random() < 0.35),
                     atom=atom if rng.random() < 0.6 else None)
        # keep every exponential argument in range
        for c in list(spec['cvx']):
            M = np.array(c['M'], float)
            v = np.array(c['v'], float)
            if c['atom'] in ('exp', 'softplus', 'expsum'):
                lo, hi = -3.0, 3.0
            elif c['atom'] == 'pexp':
                lo, hi = -3.0 * c['params']['scale'], 3.0 * c['params']['scale']
            elif c['atom'] in ('log', 'logsum', 'entropy'):
                lo, hi = 0.06, 20.0
            elif c['atom'] == 'plog':
                lo, hi = 0.06 * c['params']['scale'], 20.0 * c['params']['scale']
            else:
                continue
            spec['lin'].append({'A': M.tolist(), 'sense': 'le', 'b': (hi - v).tolist()})
            spec['lin'].append({'A': M.tolist(), 'sense': 'ge', 'b': (lo - v).tolist()})
    spec['degrees'] = sorted({4, int(rng.integers(4, 9)), int(rng.integers(5, 9))})
    spec['mode'] = 'pinned' if pinned else 'free'
    if any(b['vtype'] != 'C' for b in spec['blocks']):
        spec['mode'] = 'mi'       # integer variables: structure and integrality only
    return spec


def err_scale(spec, exact):
    """Magnitude the 1e-3 relative error refers to: the size of the exponential terms.  For
    log-type atoms the approximation error sits in the exponent, i.e. it is absolute per term
    (times multiplier / perspective scale); a literal relative error on an optimum that may be
    zero cannot be met by any approximation."""
    if spec['mode'] != 'pinned':
        return max(abs(exact), 1.0)
    c = spec['cvx'][0]
    u = np.array(spec['pin']['u'], float)
    a = c['atom']
    if a in ('exp', 'pexp', 'expsum'):
        return max(abs(exact), 1e-12)
    if a in ('log', 'logsum', 'softplus'):
        return c['mult'] * max(1.0, float(np.sum(np.abs(np.log(u)))) if a != 'softplus' else 1.0) \
            * max(1, u.size)
    if a == 'plog':
        return c['mult'] * c['params']['scale'] * max(1, u.size)
    if a == 'entropy':
        return c['mult'] * max(float(np.sum(np.abs(u))), 1e-3)
    return max(abs(exact), 1.0)


def exponents(f, x):
    out = []
    for e in getattr(f, 'xmat', []) or []:
        a0, a2 = x[e[0]], x[e[2]]
        if abs(a2) < 1e-9:
            out.append(np.inf if abs(a0) > 1e-9 else 0.0)
        else:
            out.append(a0 / a2)
    return np.array(out)


def run_mi(spec, ctx, m, f, fp0, f_copy, feats, detail):
    """Programs with integer variables: what to_socp hands to the solver must keep the variable
    types, and the point soc_solve returns must be integral in them (no exact mixed-integer
    exponential-cone reference is available, so the value itself is not judged)."""
    n0, m0 = structure(f, spec, fp0, f_copy, ctx, detail)
    ints = np.where(np.asarray(f.vtype) != 'C')[0]
    solved = False
    if not detail:
        try:
            with warnings.catch_warnings():
                warnings.simplefilter('ignore')
                m.soc_solve(C.solver('grb'), degree=4, display=False,
                            params={'TimeLimit': 30, 'Threads': 1})
            if C.optimal(m):
                solved = True
                ctx.count('mi_soc_solves')
                sx = np.asarray(m.solution.x, float)
                frac = np.abs(sx[ints] - np.round(sx[ints]))
                if len(ints) and np.max(frac) > 1e-5:
                    detail.append({'what': 'soc_solve returns fractional values for integer '
                                   'variables', 'values': sx[ints].tolist()})
        except Exception as e:
            ctx.count('soc_solve_raises:grb:' + type(e).__name__)
    sig = '|'.join('%s=%s' % (k_, feats[k_]) for k_ in sorted(feats))
    if detail:
        return {'status': 'violation', 'mechanism': detail[0]['what'][:60], 'detail': detail[:3],
                'features': feats, 'sig': sig, 'nontrivial': True}
    return {'status': 'held', 'features': feats, 'sig': sig, 'nontrivial': bool(len(ints)),
            'observed': {'integer_variables': int(len(ints)), 'soc_solved': solved}}


def structure(f, spec, fp0, f_copy, ctx, detail):
    n0 = f.linear.shape[1]
    m0 = f.linear.shape[0]
    for d in spec['degrees']:
        g = f.to_socp(d)
        ctx.count('structure_checks')
        if C.fingerprint(f) != fp0:
            detail.append({'what': 'to_socp changed the cached primal',
                           'fields': C.formula_diff(f, f_copy), 'degree': d})
            break
        G = sp.csr_matrix(g.linear)
        if G.shape[0] < m0 or G.shape[1] < n0:
            detail.append({'what': 'to_socp lost rows or columns', 'degree': d})
            break
        top = G[:m0]
        bad = []
        if (top[:, :n0] != sp.csr_matrix(f.linear)).nnz or top[:, n0:].nnz:
            bad.append('rows')
        if not np.array_equal(np.asarray(g.const)[:m0], np.asarray(f.const)):
            bad.append('const')
        if not np.array_equal(np.asarray(g.sense)[:m0], np.asarray(f.sense)):
            bad.append('sense')
        if not np.array_equal(np.asarray(g.ub)[:n0], np.asarray(f.ub)) or \
                not np.array_equal(np.asarray(g.lb)[:n0], np.asarray(f.lb)):
            bad.append('bounds')
        if not np.array_equal(np.asarray(g.vtype)[:n0], np.asarray(f.vtype)) or \
                np.any(np.asarray(g.vtype)[n0:] != 'C'):
            bad.append('vtype')
        if [list(q) for q in g.qmat[:len(f.qmat)]] != [list(q) for q in f.qmat]:
            bad.append('cones')
        if not np.array_equal(np.asarray(g.obj).reshape(-1)[:n0], np.asarray(f.obj).reshape(-1)) \
                or np.any(np.asarray(g.obj).reshape(-1)[n0:] != 0):
            bad.append('obj')
        if getattr(g, 'xmat', None):
            bad.append('exp cones left')
        if len(g.qmat) != len(f.qmat) + len(f.xmat) * (3 + d):
            bad.append('number of new cones')
        if bad:
            detail.append({'what': 'to_socp does not carry the original program over unchanged',
                           'fields': bad, 'degree': d})
            break
    return n0, m0


def run_case(spec, ctx):
    try:
        B = D.build(spec)
        m = B.model
        f = m.do_math()
    except Exception as e:
        ctx.count('rsome_raises_build:' + type(e).__name__)
        return {'status': 'skip', 'reason': 'rsome raised at build: %s' % type(e).__name__}
    if not getattr(f, 'xmat', None):
        return {'status': 'skip', 'reason': 'no exponential cone in the program'}
    feats = {'front': spec['front'], 'atoms': sorted({c['atom'] for c in spec['cvx']}),
             'mode': spec['mode'], 'degrees': spec['degrees'], 'ncones': len(f.xmat),
             'has_soc': bool(f.qmat),
             'special': sorted({s_['kind'] for s_ in spec.get('special', [])})}
    detail = []
    fp0 = C.fingerprint(f)
    f_copy = copy.deepcopy(f)
    if spec['mode'] == 'mi':
        return run_mi(spec, ctx, m, f, fp0, f_copy, feats, detail)
    C.solve(m, 'eco')
    if not C.optimal(m) or 'Optimal' not in str(m.solution.status):
        return {'status': 'skip', 'reason': 'exact solve not optimal', 'features': feats}
    exact = float(m.get())
    ex_x = np.asarray(m.solution.x, float)
    if spec['mode'] == 'pinned':
        if abs(exact - spec['expected']) > 1e-4 * (1 + abs(exact)):
            return {'status': 'skip', 'reason': 'exact solve disagrees with closed form (C07)'}
        exact_solver = exact
        exact = float(spec['expected'])     # the closed form is the more accurate reference
    ex_exp = exponents(f, ex_x)
    in_range = bool(np.all(np.abs(ex_exp) <= 4.0))
    n0, m0 = structure(f, spec, fp0, f_copy, ctx, detail)
    # ---- accuracy
    errs = {}
    judged_acc = 0
    for sname in ('eco', 'grb'):
        prev = None
        for d in spec['degrees']:
            try:
                with warnings.catch_warnings():
                    warnings.simplefilter('ignore')
                    # default barrier tolerances are amplified by the 2**degree squarings of the
                    # approximation; Gurobi is asked for a tight one (ECOS takes no parameters)
                    m.soc_solve(C.solver(sname), degree=d, display=False,
                                params={'BarQCPConvTol': 1e-10, 'TimeLimit': 30, 'Threads': 1} if sname == 'grb' else {})
            except Exception as e:
                if 'license' in str(e):
                    ctx.count('gurobi_size_limit')
                    break
                ctx.count('soc_solve_raises:%s:%s' % (sname, type(e).__name__))
                break
            if not C.optimal(m):
                ctx.count('soc_not_optimal:' + sname)
                prev = None
                continue
            if sname == 'eco' and 'Optimal' not in str(m.solution.status):
                prev = None
                continue
            val = float(m.get())
            # the solver's vector must be feasible for the approximating program, otherwise the
            # number says nothing about the approximation (observed: ECOS 'optimal' at degree 8
            # with rows violated by 0.57)
            fa = f.to_socp(d)
            if C.audit_solution(fa, m.solution.x, tol=1e-5):
                ctx.count('soc_solver_vector_infeasible:' + sname)
                prev = None
                continue
            # the approximation squares d times, so a residual r of the solver's vector in the
            # innermost rows / cones moves the exponential by about 2**d * r (observed: ECOS
            # 'optimal' at degree 8 with cone residual 7e-7, y below z*exp(x/z) by 4.4e-4, value
            # off by 1.5e-3, while degrees 4-6 agree with the exact optimum to 1e-6).  Such a
            # vector is too inaccurate to say anything about the approximation: not judged.
            resid = max([float(v_) for _k, v_ in C.audit_solution(fa, m.solution.x, tol=0.0)] +
                        [0.0])
            if resid * 2.0 ** d > 1e-4:
                ctx.count('soc_solver_vector_too_inaccurate_for_degree:%s:%d' % (sname, d))
                prev = None
                continue
            sx = np.asarray(m.solution.x, float)[:n0]
            ap_exp = exponents(f, sx)
            if not (in_range and np.all(np.abs(ap_exp) <= 4.0)):
                ctx.count('out_of_range_exponent')
                prev = None
                continue
            scale = err_scale(spec, exact)
            err = abs(val - exact)
            errs['%s@%d' % (sname, d)] = err / scale if scale else err
            ctx.count('accuracy_comparisons')
            judged_acc += 1
            noise = 2e-6 * (1 + abs(exact))
            if err > 1e-3 * scale + noise:
                detail.append({'what': 'soc_solve error above 1e-3', 'solver': sname,
                               'degree': d, 'soc': val, 'exact': exact,
                               'relative_error': err / scale if scale else None,
                               'max_exponent': float(np.max(np.abs(ap_exp)))})
            prev = err
    # ---- a custom, tight but sufficient range of exponents (cuts): still accurate
    if not detail and in_range and len(ex_exp):
        U = float(np.ceil(10 * (np.max(np.abs(ex_exp)) + 0.15)) / 10)
        U = max(U, 0.6)
        for cuts in ((-30, U), (-(U + 2), U + 0.5)):
            try:
                with warnings.catch_warnings():
                    warnings.simplefilter('ignore')
                    m.soc_solve(C.solver('eco'), degree=4, cuts=cuts, display=False)
            except Exception as e:
                ctx.count('soc_solve_cuts_raises:' + type(e).__name__)
                break
            if not C.optimal(m) or 'Optimal' not in str(m.solution.status):
                continue
            valc = float(m.get())
            sxc = np.asarray(m.solution.x, float)[:n0]
            apc = exponents(f, sxc)
            if not np.all(np.abs(apc) <= U - 0.05):
                continue                     # the approximate optimum left the declared range
            ctx.count('custom_cuts_compared')
            scale = err_scale(spec, exact)
            if abs(valc - exact) > 1e-3 * scale + 2e-6 * (1 + abs(exact)):
                detail.append({'what': 'soc_solve error above 1e-3 with a custom exponent range',
                               'cuts': list(cuts), 'soc': valc, 'exact': exact,
                               'max_exponent': float(np.max(np.abs(apc)))})
                break
    # ---- the exact solve still works afterwards and returns the same optimum
    try:
        C.solve(m, 'eco')
        if C.optimal(m) and 'Optimal' in str(m.solution.status):
            again = float(m.get())
            ref_again = exact_solver if spec['mode'] == 'pinned' else exact
            if abs(again - ref_again) > 1e-6 * (1 + abs(exact)):
                detail.append({'what': 'exact solve after soc_solve gives a different optimum',
                               'before': exact, 'after': again})
    except Exception as e:
        detail.append({'what': 'exact solve after soc_solve raises',
                       'error': '%s: %s' % (type(e).__name__, str(e)[:100])})
    # ---- the model changes after soc_solve: the next soc_solve approximates the CURRENT model
    o = spec['obj']
    if not detail and spec['mode'] == 'free' and not o.get('cvx') and not o.get('pieces') \
            and in_range and hasattr(B, 'obj_expr'):
        try:
            with warnings.catch_warnings():
                warnings.simplefilter('ignore')
                m.soc_solve(C.solver('eco'), degree=4, display=False)
                delta = 0.05 * max(1.0, abs(exact))
                # a cut on the (affine) objective that moves the optimum by delta
                if o['sense'] == 'min':
                    m.st(B.obj_expr >= exact + delta)
                else:
                    m.st(B.obj_expr <= exact - delta)
                m.soc_solve(C.solver('eco'), degree=4, display=False)
                ok2 = C.optimal(m) and 'Optimal' in str(m.solution.status)
                v2 = float(m.get()) if ok2 else None
                C.solve(m, 'eco')
                ok3 = C.optimal(m) and 'Optimal' in str(m.solution.status)
                v3 = float(m.get()) if ok3 else None
            if ok2 and ok3:
                ctx.count('soc_after_change')
                feats['changed_then_soc'] = True
                if abs(v2 - v3) > 1e-3 * max(abs(v3), 1.0) + 2e-6:
                    detail.append({'what': 'soc_solve after st() does not approximate the changed '
                                   'model', 'soc_after_change': v2, 'exact_after_change': v3,
                                   'exact_before_change': exact})
        except Exception as e:
            ctx.count('soc_after_change_raises:' + type(e).__name__)
    sig = '|'.join('%s=%s' % (k, feats[k]) for k in sorted(feats))
    if detail:
        return {'status': 'violation', 'mechanism': detail[0]['what'], 'detail': detail[:3],
                'features': feats, 'sig': sig, 'nontrivial': True}
    return {'status': 'held', 'features': feats, 'sig': sig,
            'nontrivial': bool(judged_acc and abs(exact) > 1e-3),
            'observed': {'exact': exact, 'relative_errors': errs,
                         'max_exponent_exact': float(np.max(np.abs(ex_exp)))}}
