"""C02 - the robust counterpart is exact.

Reference-model monitor: the optimum RSOME reports is compared with an
independent cutting-plane solution of the semi-infinite problem (master LP in
NumPy/HiGHS over finitely many verified realisations, separation by the
harness's own maximiser over the set).  Disagreements are reported only with a
witness: a verified realisation at which RSOME's solution fails (optimistic),
or the reference solution, re-verified robustly feasible with an exact
separation oracle, having a strictly better worst-case objective
(conservative).  A reported infeasible/unbounded status on a model that is
feasible and bounded by construction is a violation too."""
import numpy as np

from rv import romodel as R
from rv import sets as S
from rv import common as C
from rv.props import c01

N_CASES = {'quick': 1200, 'thorough': 12000}
TIMEOUT = {'quick': 1500, 'thorough': 6 * 3600}
ANCHORS = ['lp:RoConstr.le_to_rc', 'lp:RoConstr.forall', 'ro:Model.do_math',
           'lp:DecRule.to_affine', 'lp:DecRule.adapt', 'lp:Model.do_math',
           'socp:Model.do_math', 'gcp:Model.do_math']
FLOORS = {'judged': {'quick': 625, 'thorough': 6000}, 'nontrivial': 50}
RULE = ('ro models as in C01 (feasible and bounded by construction, sets non-empty, bounded, '
        'with an interior point); reference optimum by cutting planes. Non-trivial: reference '
        'solved, robust optimum differs from the nominal optimum by > 1e-4 (protection costs '
        'something); distinct by (set kinds, senses, mask class, mode, pieces, solver)')
ASSUMPTIONS = ['HiGHS solves the master LPs and polyhedral separation LPs exactly',
               'conservatism is judged only where the separation oracle is exact (LP, closed '
               'form, ECOS for SOC sets); optimism is judged everywhere with verified witnesses']

KINDS = R.SOC_KINDS + R.SOC_KINDS + ['pnorm', 'kl', 'entropy']


def gen_case(rng, idx, tier):
    if rng.random() < 0.06:
        from rv import matrule
        return matrule.gen(rng, tier)
    if rng.random() < 0.12:
        # matrix-shaped decision and random variables, bilinear terms in several array
        # spellings, box sets given with broadcast bounds; the reference is a SciPy LP
        from rv.props import c15
        return c15.gen_matrix(rng, tier, robust=True)
    return R.gen(rng, tier, kinds=KINDS)


def run_case(spec, ctx):
    if spec.get('kind') == 'matrule':
        from rv import matrule
        return matrule.run(spec, ctx, exact=True)
    if spec.get('kind') == 'matrix':
        from rv.props import c15
        res = c15.run_matrix(spec, ctx)
        if res.get('status') == 'held':
            ctx.count('matrix_models_compared')
        return res
    rng = np.random.default_rng(spec['spell'])
    ref = R.reference(spec)
    if ref.status != 'optimal':
        ctx.count('reference_' + ref.status)
        return {'status': 'skip', 'reason': 'reference ' + ref.status}
    try:
        B = R.build(spec)
        formula = B.model.do_math()
    except Exception as e:
        ctx.count('rsome_raises_build:' + type(e).__name__)
        return {'status': 'skip', 'reason': 'rsome raised at build: %s: %s'
                % (type(e).__name__, str(e)[:80])}
    sname = R.pick_solver(formula, rng)
    try:
        try:
            C.solve(B.model, sname)
        except Exception as e:
            if sname == 'grb' and 'license' in str(e):
                sname = 'eco'
                C.solve(B.model, sname)
            else:
                raise
    except Exception as e:
        ctx.count('rsome_raises_solve:' + type(e).__name__)
        return {'status': 'skip', 'reason': 'rsome raised at solve: %s' % type(e).__name__}
    f = c01.features(spec, sname)
    f['ref_exact'] = ref.exact
    f['ref_iterations'] = min(ref.iterations, 20)
    sig = c01.sig_of(f)
    osgn = 1 if spec['mode'] in ('min', 'minmax') else -1
    if not C.optimal(B.model):
        st = getattr(B.model.solution, 'status', None)
        if sname == 'eco' and 'Optimal' not in str(st) and ('infeasible' not in str(st).lower()
                                                           and 'unbounded' not in str(st).lower()):
            ctx.count('ecos_numerical')
            return {'status': 'skip', 'reason': 'ECOS numerical status %s' % st, 'features': f}
        if not C.definitive_failure(sname, st):
            # (e.g. Gurobi 13 SUBOPTIMAL / 9 TIME_LIMIT: the solver gave up, it does not say that
            # the model has no optimum)
            ctx.count('solver_gave_up:' + sname)
            return {'status': 'skip', 'reason': 'solver status %s' % st, 'features': f}
        # model is feasible (xstar) and bounded (boxes) by construction: verify the witness
        x = np.array(spec['xstar'])
        y0 = [np.array(a) for a in spec['ystar'][0]]
        Y = [np.array(a) for a in spec['ystar'][1]]
        ok = True
        for kind, e, sgn, rhs, prims, n, tag in R.all_rows(spec):
            al, be = R.coeffs(spec, e, x, y0, Y)
            wv, z, exact = R.worst_value(prims, n, al, be, sgn,
                                         z0=np.array(spec['dcenter'])[:n]
                                         if prims is spec['dset'] else None)
            if wv is None or wv - sgn * rhs > 1e-7 or not exact:
                ok = False
        if not ok:
            return {'status': 'skip', 'reason': 'status mismatch but witness not exact',
                    'features': f}
        return {'status': 'violation', 'mechanism': 'status_mismatch', 'features': f, 'sig': sig,
                'nontrivial': True,
                'detail': {'rsome_status': str(st), 'solver': sname,
                           'reference_value': ref.value, 'feasible_point': spec['xstar']}}
    val = B.model.get()
    tol = R.tol_for(sname, abs(val) + abs(ref.value)) * 10
    nom = R.reference(spec, nominal=True)
    nontrivial = nom.status == 'optimal' and abs(nom.value - ref.value) > 1e-4
    obs = {'rsome': float(val), 'reference': float(ref.value),
           'nominal': float(nom.value) if nom.status == 'optimal' else None,
           'iterations': ref.iterations, 'cuts': ref.ncuts}
    if osgn * (ref.value - val) > tol:
        # RSOME claims better than the relaxation allows: its solution must fail somewhere
        viols, info = c01.judge(spec, B, sname)
        if not viols:
            viols = witness_from_pools(spec, B, ref, val, sname)
        if viols:
            return {'status': 'violation', 'mechanism': 'optimistic', 'features': f, 'sig': sig,
                    'nontrivial': True, 'detail': {'values': obs, 'witness': viols[:2]}}
        cert = relaxation_certificate(spec, B, ref, val, tol, osgn)
        if cert is not None:
            return {'status': 'violation', 'mechanism': 'optimistic_relaxation_bound',
                    'features': f, 'sig': sig, 'nontrivial': True,
                    'detail': {'values': obs, 'certificate': cert}}
        ctx.count('optimistic_without_witness')
        return {'status': 'error', 'error': 'optimistic gap %.3g without witness'
                % (osgn * (ref.value - val)), 'features': f}
    if osgn * (val - ref.value) > tol:
        if not ref.exact:
            ctx.count('conservative_gap_inexact_oracle')
            return {'status': 'skip', 'reason': 'gap with inexact oracle', 'features': f}
        # verify the reference solution: robustly feasible and strictly better
        ok = True
        for kind, e, sgn, rhs, prims, n, tag in R.all_rows(spec):
            al, be = R.coeffs(spec, e, ref.x, ref.y0, ref.Y)
            wv, z, exact = R.worst_value(prims, n, al, be, sgn,
                                         z0=np.array(spec['dcenter'])[:n]
                                         if prims is spec['dset'] else None)
            if wv is None or not exact or wv - sgn * rhs > 1e-6 * (1 + abs(rhs)):
                ok = False
        ow, oz, oex = R.objective_worst(spec, ref.x, ref.y0, ref.Y)
        if ok and oex and osgn * (val - ow) > tol:
            return {'status': 'violation', 'mechanism': 'conservative', 'features': f, 'sig': sig,
                    'nontrivial': True,
                    'detail': {'values': obs, 'better_point': {
                        'x': ref.x.tolist(), 'y0': [a.tolist() for a in ref.y0],
                        'Y': [a.tolist() for a in ref.Y], 'worst_case_objective': float(ow)}}}
        ctx.count('conservative_without_witness')
        return {'status': 'error', 'error': 'conservative gap without verified witness',
                'features': f}
    return {'status': 'held', 'features': f, 'sig': sig, 'nontrivial': bool(nontrivial),
            'observed': obs}


def relaxation_certificate(spec, B, ref, val, tol, osgn):
    """RSOME's optimum beats the reference although its solution is robustly feasible as
    returned (e.g. a rule that uses components it was not allowed to).  The witness is then the
    finite relaxation itself: scenarios z_1..z_K, each re-verified to lie in its set, such that
    no decision in the declared decision space (static x, rules with the declared masks) that
    satisfies the requirements at those K scenarios reaches RSOME's value.  The bound is
    re-derived here with a different LP algorithm than the one the reference used."""
    from scipy.optimize import linprog
    npts = 0
    for k, pts in ref.pools.items():
        prims = ref.pool_sets[k]
        for z in pts:
            if S.set_viol(prims, z) > 1e-7:
                return None
            npts += 1
    M = ref.master
    res = linprog(M['c'], A_ub=M['A'], b_ub=M['b'], bounds=M['bounds'], method='highs-ipm')
    if res.status != 0:
        return None
    bound = osgn * float(res.fun)
    if not osgn * (bound - val) > tol:
        return None
    # what the returned rule looks like next to its declaration
    x, y0, Y = R.read_solution(spec, B)
    undeclared = [bool(np.any(np.abs(Yi[np.array(r['mask']).reshape(Yi.shape) == 0]) > 1e-7))
                  for r, Yi in zip(spec['rules'], Y)]
    return {'scenarios': npts, 'cuts': int(M['A'].shape[0]),
            'best_value_over_declared_decision_space_at_these_scenarios': bound,
            'rsome_value': float(val), 'rule_uses_undeclared_components': undeclared,
            'pool': [np.asarray(z).tolist() for pts in ref.pools.values() for z in pts][:12]}


def witness_from_pools(spec, B, ref, val, sname):
    x, y0, Y = R.read_solution(spec, B)
    out = []
    for kind, e, sgn, rhs, prims, n, tag in R.all_rows(spec):
        al, be = R.coeffs(spec, e, x, y0, Y)
        for z in ref.pools.get(id(prims), []):
            g = sgn * (al + be[:n] @ z) - sgn * rhs
            if g > R.tol_for(sname, abs(rhs) + abs(al)) and S.set_viol(prims, z) <= 1e-6:
                out.append({'what': 'robust row violated', 'row': tag, 'z': np.asarray(z).tolist(),
                            'excess': float(g)})
                return out
    return out
