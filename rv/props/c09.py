"""C09 - sets and expressions do not leak; results are independent of build history.

Differential monitor over API histories: the same declared model is produced
(1) by a hostile history - distractor sets defined before/between/after the
real ones, formulation (primal and dual) and solves with varying interfaces in
the middle, constraints/variables/decision rules added after a solve,
expression objects reused in several constructs, support sets redefined, a
second ambiguity object - and (2) by a fresh top-to-bottom build.  Optimum and
the uncertainty-set programs captured for each constraint must agree; an
exception in one but not the other is a disagreement."""
import copy
import warnings

import numpy as np

from rv import romodel as R
from rv import dromodel as DR
from rv import sets as S
from rv import common as C

N_CASES = {'quick': 400, 'thorough': 8000}
TIMEOUT = {'quick': 1500, 'thorough': 6 * 3600}
ANCHORS = ['gcp:Model.reset', 'lp:RoConstr.forall', 'ro:Model.minmax',
           'ro:Model.maxmin', 'ro:Model.do_math', 'dro:Model.do_math', 'ro:Model.reset',
           'dro:Ambiguity.mix_support', 'lp:ExpPiecewiseConvex.__init__', 'lp:Scen.suppset',
           'dro:Model.rule_var']
FLOORS = {'judged': {'quick': 250, 'thorough': 5000}, 'nontrivial': 60,
          'counters': {'distractors_defined': 150, 'mid_solves': 100, 'supports_compared': 70}}
RULE = ('ro histories (C01 generator): distractor sets of every primitive kind at random points, '
        'do_math / do_math(primal=False) / solve with a random interface after the objective or '
        'between rows, rows added after a solve, a decision variable and a decision rule declared '
        'after the first solve and used in later rows, one expression object used in two '
        'constraints with different sets, a random variable declared between two uses of a rule, '
        'forall() attached to constraints already in the (formulated) model, box sets written '
        'with exponential constraints only; dro histories (C03 generator): second ambiguity object '
        'with other sets, support / probability set redefined, one event declared in two exptset '
        'calls, solve then more constraints, expression reused inside E(maxof) and in a worst-case '
        'constraint, variable declared after the first formulation, forall(<second ambiguity set>) '
        'and adapt() calls made after the constraints were added or after a first solve; 10 %: '
        'event-wise decisions in deterministic rows with late adapt() calls against a closed form. '
        'Non-trivial: optimal and the history contained a mid-solve or a distractor that differs '
        'from the real set; distinct by (front, history ops, set kinds, mode)')
ASSUMPTIONS = ['fresh build and history are solved by the same interface; tolerance 1e-6 (LP) / '
               '1e-4 (conic)']


def gen_case(rng, idx, tier):
    if rng.random() < 0.1:
        # event-wise decisions in deterministic linear / convex rows, every adapt() call made after
        # the constraints were added (or after a first solve); the closed form is the fresh build
        from rv import evconvex
        sp = evconvex.gen(rng, tier)
        if not sp['late_adapt']:
            sp['late_adapt'] = 1 + int(rng.integers(2))
        return {'front': 'evconvex', 'spec': sp}
    if rng.random() < 0.6:
        spec = R.gen(rng, tier)
        nz, nzr = spec['nz'], spec['nzr']
        ops = {'distract': bool(rng.random() < 0.8), 'mid': bool(rng.random() < 0.7),
               'late': bool(rng.random() < 0.5), 'reuse': bool(rng.random() < 0.4),
               'dual_mid': bool(rng.random() < 0.4),
               'mid_rvar': int(rng.integers(1, 3)) if rng.random() < 0.35 else 0}
        dis = []
        for _ in range(int(rng.integers(1, 4))):
            kinds_ = R.ALL_KINDS
            if rng.random() < 0.45:
                # exponential-cone type pieces are kept in lists of their own by the model layers
                kinds_ = ['expc', 'expc', 'kl', 'entropy']
            pr, n_, _c = S.random_set(rng, nzr, kinds_, allow_aux=False)
            dis.append(pr)
        ext = None
        if ops['late']:
            nx = spec['nx']
            g = float(np.round(rng.uniform(0.5, 2.0), 2))
            ext = {'wub': float(np.round(rng.uniform(0.2, 1.5), 2)),
                   'a': np.round(rng.uniform(-1.5, 1.5, nx), 2).tolist(),
                   'q': (np.round(rng.uniform(-1, 1, nz), 2) *
                         (np.arange(nz) < nzr)).tolist(),
                   'g': g, 'slack': float(np.round(rng.uniform(-0.5, 0.3), 2)),
                   'ldr': bool(rng.random() < 0.5),
                   'ldr_mask': (rng.random(nz) < 0.6).astype(int).tolist()}
        ops['late_forall'] = bool(rng.random() < 0.4)
        # sets that consist of one plain box are written, in 40 % of the models, with exponential
        # constraints only (exp(z) <= e^hi, exp(-z) <= e^-lo): sets without any linear piece
        if rng.random() < 0.4:
            for prims_ in [spec['dset']] + [r_['set'] for r_ in spec['rows'] if r_.get('set')]:
                if len(prims_) == 1 and prims_[0]['t'] == 'box' and \
                        np.all(np.array(prims_[0]['lo']) < np.array(prims_[0]['hi'])) and \
                        np.max(np.abs(prims_[0]['lo'] + prims_[0]['hi'])) < 4:
                    prims_[0]['exp_spell'] = True
                    ops['exp_only_set'] = True
        return {'front': 'ro', 'spec': spec, 'ops': ops, 'distractors': dis, 'ext': ext,
                'hseed': int(rng.integers(1 << 30))}
    spec = DR.gen(rng, tier)
    ops = {'second_amb': bool(rng.random() < 0.5), 'redefine': bool(rng.random() < 0.5),
           'mid': bool(rng.random() < 0.7), 'reuse': bool(rng.random() < 0.5),
           'late_dvar': bool(rng.random() < 0.12)}
    nz = spec['nz']
    wrong = []
    for s in range(spec['S']):
        pr, n_, _c = S.random_set(rng, nz, ['box', 'norm1', 'norminf', 'norm2'], allow_aux=False,
                                  center=spec['centers'][s], scale=0.5)
        wrong.append([pr[0]])
    ext_rows = []
    for _ in range(int(rng.integers(1, 3))):
        e = {'a': [np.round(rng.uniform(-1.5, 1.5, v['n']), 2).tolist() for v in spec['xvars']],
             'P': [np.zeros((v['n'], nz)).tolist() for v in spec['xvars']],
             'q': np.round(rng.uniform(-1, 1, nz), 2).tolist(),
             'k': float(np.round(rng.uniform(-1, 1), 2))}
        ext_rows.append({'e': e, 'sense': 'le' if rng.random() < 0.5 else 'ge', 'rhs': 0.0,
                         'expect': bool(rng.random() < 0.5)})
    full = copy.deepcopy(spec)
    full['rows'] = spec['rows'] + ext_rows
    late_moment = None
    if rng.random() < 0.45 and not spec.get('wass'):
        # an expectation set added (through scenario indexing) after the first formulation
        Sn = spec['S']
        ev = sorted(rng.choice(Sn, size=int(rng.integers(1, Sn + 1)), replace=False).tolist())
        if ev not in [m_['event'] for m_ in spec['moments']]:
            ph = np.array(spec['pset']['phat'], float)
            cen = np.array(spec['centers'], float)
            mu = (ph[ev] / ph[ev].sum()) @ cen[ev]
            w = np.round(rng.uniform(0.02, 0.25, nz), 2)
            late_moment = {'event': ev, 'prims': [{'t': 'box', 'lo': (mu - w).tolist(),
                                                   'hi': (mu + w).tolist(),
                                                   'idx': list(range(nz))}]}
            full['moments'] = spec['moments'] + [late_moment]
    ops['late_exptset'] = late_moment is not None
    DR._calibrate(full, rng)
    # the support of one scenario is still a preliminary (wrong) set while the model is
    # formulated / solved for the first time and gets its real set, through a scenario
    # selector, only afterwards (decided by a generator of its own: older cases keep their draws)
    hseed = int(rng.integers(1 << 30))
    ops['late_support'] = bool(ops['mid'] and np.random.default_rng(hseed + 2).random() < 0.35)
    return {'front': 'dro', 'spec': spec, 'full': full, 'ops': ops, 'wrong': wrong,
            'late_moment': late_moment, 'hseed': hseed}


def supports_of(B):
    out = []
    for c in B.user_constr:
        sup = getattr(c, 'support', None)
        out.append(C.fingerprint(sup) if sup is not None else None)
    osup = B.model.obj_support
    out.append(C.fingerprint(osup) if osup is not None else None)
    return out


def solve_val(model, sname):
    C.solve(model, sname)
    if not C.optimal(model):
        return ('failed', str(getattr(model.solution, 'status', None)))
    if sname == 'eco' and 'Optimal' not in str(model.solution.status):
        return ('inaccurate', None)
    return ('optimal', float(model.get()))


def run_case(spec, ctx):
    if spec['front'] == 'evconvex':
        from rv import evconvex
        r = evconvex.run(spec['spec'], ctx, exact=True)
        if r.get('status') == 'violation':
            r['mechanism'] = 'late_adapt:' + str(r.get('mechanism'))
        return r
    if spec['front'] == 'ro':
        return run_ro(spec, ctx)
    return run_dro(spec, ctx)


def _ext_rows_ro(spec, ext, B, w, y2, rso):
    """Rows that use the late variable w (and late rule y2): returns list of constraints."""
    base = spec['spec']
    xoff = np.concatenate(([0], np.cumsum(base['xsplit'])))
    zoff = np.concatenate(([0], np.cumsum(base['zsplit'])))
    a = np.array(ext['a'])
    q = np.array(ext['q'])
    lhs = None
    for bi, x in enumerate(B.xs):
        t = a[xoff[bi]:xoff[bi + 1]] @ x
        lhs = t if lhs is None else lhs + t
    for zi, z in enumerate(B.zs):
        qb = q[zoff[zi]:zoff[zi + 1]]
        if qb.any():
            lhs = lhs + qb @ z
    lhs = lhs - ext['g'] * w.sum()
    if y2 is not None:
        lhs = lhs + y2.sum()
    xs = np.array(base['xstar'])
    zc = np.array(base['dcenter'])
    rhs = float(a @ xs + np.abs(q).sum() * 0.0 + q @ zc + ext['slack'])
    out = [lhs <= rhs, w <= ext['wub'], w >= -1.0]
    if y2 is not None:
        out += [y2 <= 2.0, y2 >= -2.0]
    return out


def run_ro(spec, ctx):
    import rsome as rso
    base = spec['spec']
    ops = spec['ops']
    ext = spec['ext']
    hr = np.random.default_rng(spec['hseed'])
    # ---------------- fresh build
    try:
        BF = R.build(base, variant={'extra_rvar': int(ops.get('mid_rvar') or 0)})
        if ext is not None:
            wF = BF.model.dvar(1)
            y2F = None
            if ext['ldr']:
                y2F = BF.model.ldr(1)
                _adapt_mask(y2F, BF, ext['ldr_mask'], base)
            for c in _ext_rows_ro(spec, ext, BF, wF, y2F, rso):
                BF.model.st(c)
        fF = BF.model.do_math()
        sname = {'L': 'def', 'Q': 'eco', 'X': 'eco'}[C.cone_class(fF)[0]]
        rF = solve_val(BF.model, sname)
        fresh_err = None
    except Exception as e:
        fresh_err = '%s: %s' % (type(e).__name__, str(e)[:80])
        rF = None
    if fresh_err is not None:
        ctx.count('fresh_raises')
        return {'status': 'skip', 'reason': 'fresh build raises: ' + fresh_err}
    if rF[0] != 'optimal':
        return {'status': 'skip', 'reason': 'fresh model not optimal: %s' % (rF[1],)}
    # ---------------- hostile history
    events = []
    state = {'nd': 0, 'mid': 0}

    def distractor(B):
        pr = spec['distractors'][state['nd'] % len(spec['distractors'])]
        state['nd'] += 1
        zz = B.zpart(base['nzr'])
        dummy = (B.xs[0][0] + zz.sum() <= 7.0)
        dcons = list(S.build_rsome(pr, zz, hr))
        tag = '+'.join(p['t'] for p in pr)
        if hr.random() < 0.3:
            # an exponential-cone piece without auxiliary random variable: exp(z0) <= z0 + 0.7,
            # i.e. z0 in about [-0.67, -0.19] - a set that cuts into every real one
            dcons.append(rso.expcone(zz[0] + 0.7, zz[0], 1.0))
            tag += '+expcone'
        dummy.forall(dcons)
        ctx.count('distractors_defined')
        events.append('distractor:' + tag)

    def midsolve(B):
        m = B.model
        with warnings.catch_warnings():
            warnings.simplefilter('ignore')
            f = m.do_math()
            if ops['dual_mid']:
                m.do_math(primal=False)
                events.append('dual')
            names = [s for s in C.solvers_for(f) if s != 'lpg']
            s = names[int(hr.integers(len(names)))] if names else None
            if s:
                try:
                    C.solve(m, s)
                    events.append('solve:' + s)
                except Exception as e:
                    if 'license' in str(e):
                        pass
                    elif C.solver_library_error(e):
                        ctx.count('mid_solve_solver_library_error')
                    else:
                        raise
        state['mid'] += 1
        ctx.count('mid_solves')

    def hook(point, B):
        if point == 'objective':
            if ops['distract'] and hr.random() < 0.7:
                distractor(B)
            if ops['mid'] and hr.random() < 0.4:
                midsolve(B)
        elif point == 'late_forall':
            # rows that get their own set only now have been in the model, with the default
            # set, through whatever happens here
            midsolve(B)
            events.append('late_forall')
        elif point == 'row':
            if ops.get('mid_rvar') and not state.get('mid_rvar') and hr.random() < 0.5:
                # another (unused) random variable declared between two uses of the rules (the
                # fresh build declares it together with the others)
                B.model.rvar(int(ops['mid_rvar']))
                state['mid_rvar'] = True
                events.append('mid_rvar')
            if ops['distract'] and hr.random() < 0.5:
                distractor(B)
            if ops['mid'] and hr.random() < 0.35:
                midsolve(B)

    try:
        if ops['distract'] and hr.random() < 0.5:
            pass
        BH = R.build(base, variant={'hook': hook, 'late_forall': bool(ops.get('late_forall'))})
        if ops.get('mid_rvar') and not state.get('mid_rvar'):
            BH.model.rvar(int(ops['mid_rvar']))
            state['mid_rvar'] = True
            events.append('late_rvar')
        if ops['distract']:
            distractor(BH)
        if ops['mid']:
            midsolve(BH)
        if ops['reuse'] and base['rows'] and base['nz'] == base['nzr']:
            # the same expression object in two more (redundant, slack) constraints with
            # different sets must not disturb anything
            e0 = BH.expr(base['rows'][0]['e'])
            c1 = (e0 <= 1e3)
            c2 = (e0 >= -1e3)
            if hasattr(c2, 'forall'):
                c2 = c2.forall(S.build_rsome(spec['distractors'][0],
                                             BH.zpart(base['nzr']), hr))
            BH.model.st(c1)
            BH.model.st(c2)
            events.append('reuse')
        if ext is not None:
            wH = BH.model.dvar(1)
            y2H = None
            if ext['ldr']:
                y2H = BH.model.ldr(1)
                _adapt_mask(y2H, BH, ext['ldr_mask'], base)
            for c in _ext_rows_ro(spec, ext, BH, wH, y2H, rso):
                BH.model.st(c)
            events.append('late_dvar' + ('+ldr' if ext['ldr'] else ''))
            if ops['distract']:
                distractor(BH)
        rH = solve_val(BH.model, sname)
    except Exception as e:
        if C.solver_library_error(e):
            ctx.count('solver_library_error')
            return {'status': 'skip', 'reason': 'solver library raised: %s' % type(e).__name__}
        mech_ = 'history_raises:' + _hist_class(events, ops)
        if 'mid_rvar' in events and isinstance(e, ValueError) and 'broadcast' in str(e):
            mech_ = 'ro_rvar_after_rule_use_raises'
        return {'status': 'violation', 'mechanism': mech_,
                'detail': {'what': 'the history raises, the fresh build of the same model solves',
                           'error': '%s: %s' % (type(e).__name__, str(e)[:100]),
                           'where': _where(e), 'history': events, 'fresh': rF[1]},
                'sig': 'raise', 'nontrivial': True}
    feats = {'front': 'ro', 'ops': sorted(k for k, v in ops.items() if v),
             'events': sorted({e.split(':')[0] for e in events}), 'mode': base['mode'],
             'sets': sorted({p['t'] for p in base['dset']}),
             'cone': C.cone_class(fF)}
    sig = '|'.join('%s=%s' % (k, feats[k]) for k in sorted(feats))
    detail = []
    # captured supports
    if ext is None and not ops['reuse'] and not ops.get('mid_rvar') and not BH.late_forall:
        # (with a random variable declared in between, supports captured earlier legitimately
        # have fewer columns than in the fresh build; the optima are still compared)
        sF, sH = supports_of(BF), supports_of(BH)
        ctx.count('supports_compared', len(sF))
        if len(sF) == len(sH):
            for k, (a, b) in enumerate(zip(sF, sH)):
                if a != b:
                    detail.append({'what': 'uncertainty set captured for a constraint differs '
                                   'between history and fresh build', 'constraint': k,
                                   'history': events})
                    break
    tol = (1e-6 if feats['cone'] == 'L' else 1e-4) * (1 + abs(rF[1]))
    if rH[0] == 'inaccurate':
        return {'status': 'skip', 'reason': 'ECOS inaccurate', 'features': feats}
    if rH[0] != 'optimal':
        if C.definitive_failure(sname, rH[1]):
            detail.append({'what': 'history model reported infeasible/unbounded, fresh build is '
                           'optimal', 'status': rH[1], 'fresh': rF[1], 'history': events})
        else:
            return {'status': 'skip', 'reason': 'history solve numerical', 'features': feats}
    elif abs(rH[1] - rF[1]) > tol:
        detail.append({'what': 'optimum depends on the build history', 'history_value': rH[1],
                       'fresh_value': rF[1], 'history': events})
    if detail:
        return {'status': 'violation', 'mechanism': detail[0]['what'][:40] + ':' +
                _hist_class(events, ops), 'detail': detail[:2], 'features': feats, 'sig': sig,
                'nontrivial': True}
    return {'status': 'held', 'features': feats, 'sig': sig,
            'nontrivial': bool(state['mid'] or state['nd']),
            'observed': {'fresh': rF[1], 'history': rH[1], 'events': events}}


def _where(e):
    import traceback
    import os
    tb = traceback.extract_tb(e.__traceback__)
    return ['%s:%d %s' % (os.path.basename(f.filename), f.lineno, f.name) for f in tb[-12:]]


def _hist_class(events, ops):
    ks = sorted({e.split(':')[0] for e in events})
    return '+'.join(ks) if ks else 'none'


def _adapt_mask(y, B, mask, base):
    zoff = np.concatenate(([0], np.cumsum(base['zsplit'])))
    for zi, z in enumerate(B.zs):
        for j in range(zoff[zi], zoff[zi + 1]):
            if mask[j] and j < base['nzr']:
                y.adapt(z[j - zoff[zi]])


def run_dro(spec, ctx):
    import rsome as rso
    base, full = spec['spec'], spec['full']
    ops = spec['ops']
    hr = np.random.default_rng(spec['hseed'])
    ext_rows = full['rows'][len(base['rows']):]
    # the history only differs in the order things happen: both use the calibrated rows
    base = copy.deepcopy(base)
    base['rows'] = full['rows'][:len(base['rows'])]
    try:
        BF = DR.build(full, variant={'split_moments': False})
        fF = BF.model.do_math()
        sname = {'L': 'def', 'Q': 'eco', 'X': 'eco'}[C.cone_class(fF)[0]]
        rF = solve_val(BF.model, sname)
    except Exception as e:
        ctx.count('fresh_raises')
        return {'status': 'skip', 'reason': 'fresh build raises: %s' % type(e).__name__}
    if rF[0] != 'optimal':
        return {'status': 'skip', 'reason': 'fresh model not optimal'}
    events = []
    hr2 = np.random.default_rng(spec['hseed'] + 1)
    late_sup = []

    def after_sets(B, rng):
        if ops['second_amb']:
            other = B.model.ambiguity()
            for s in range(base['S']):
                DR.scen_selector(other, base, [s], hr).suppset(
                    *S.build_rsome(spec['wrong'][s], B.z, hr))
            other.probset(B.model.p >= 0.0 * np.ones(base['S']))
            ctx.count('distractors_defined')
            events.append('second_ambiguity')
        if ops['redefine']:
            s = int(hr.integers(base['S']))
            DR.scen_selector(B.fset, base, [s], hr).suppset(
                *S.build_rsome(spec['wrong'][s], B.z, hr))
            for s2 in (range(base['S']) if base['shared'] else [s]):
                DR.scen_selector(B.fset, base, [s2], hr).suppset(
                    *S.build_rsome(base['supports'][s2], B.z, hr))
            ctx.count('distractors_defined')
            events.append('support_redefined')
        if ops.get('late_support'):
            s = int(hr2.integers(base['S']))
            late_sup.append(s)
            DR.scen_selector(B.fset, base, [s], hr2).suppset(
                *S.build_rsome(spec['wrong'][s], B.z, hr2))
            ctx.count('distractors_defined')
        if ops.get('redefine') and base['S'] >= 2 and base['pset']['t'] != 'fixed' and \
                hr.random() < 0.7:
            # a preliminary, tighter probability set that the real probset() call (made right
            # after this hook) replaces - like a redefined support
            B.fset.probset(B.model.p == np.array(base['pset']['phat']))
            events.append('probset_redefined')

    try:
        split = bool(hr.random() < 0.6)      # the same event declared in two exptset() calls
        if split:
            events.append('split_exptset')
        late_fa = bool(hr.random() < 0.4)
        r_la = hr.random()
        late_ad = None if r_la < 0.55 else 'event' if r_la < 0.8 else 'all'
        BH = DR.build(base, variant={'after_sets': after_sets, 'split_moments': split,
                                     'late_forall': late_fa, 'late_adapt': late_ad})
        m = BH.model
        adapt_first = bool(hr.random() < 0.3)
        if BH.pending_adapt is not None and adapt_first:
            # adapt() calls after every constraint was created and added, before any formulation
            BH.pending_adapt()
            BH.pending_adapt = None
            events.append('late_adapt_' + late_ad)
            ctx.count('late_adapt_dro')
        if ops['mid']:
            with warnings.catch_warnings():
                warnings.simplefilter('ignore')
                f = m.do_math()
                if hr.random() < 0.4:
                    m.do_math(primal=False)
                names = [s for s in C.solvers_for(f) if s != 'lpg']
                s = names[int(hr.integers(len(names)))]
                try:
                    C.solve(m, s)
                    events.append('solve:' + s)
                    ctx.count('mid_solves')
                except Exception as e:
                    if 'license' in str(e):
                        pass
                    elif C.solver_library_error(e):
                        ctx.count('mid_solve_solver_library_error')
                    else:
                        raise
        if BH.pending_adapt is not None:
            # ... or after the model (still without the adaptation) was formulated / solved
            BH.pending_adapt()
            BH.pending_adapt = None
            events.append('late_adapt_%s_after_formulation' % late_ad)
            ctx.count('late_adapt_dro')
        if late_sup:
            # the real support(s) replace the preliminary one after the formulations above
            for s2 in (range(base['S']) if base['shared'] else late_sup):
                DR.scen_selector(BH.fset, base, [s2], hr2).suppset(
                    *S.build_rsome(base['supports'][s2], BH.z, hr2))
            events.append('late_suppset')
            ctx.count('late_suppset_dro')
        if BH.pending_forall:
            # constraints that were in the model (with the default set) through the formulations
            # above get their own ambiguity set only now
            for c_, fs_ in BH.pending_forall:
                c_.forall(fs_)
            events.append('late_forall')
            ctx.count('late_forall_dro')
        if spec.get('late_moment'):
            lm = spec['late_moment']
            sel = DR.scen_selector(BH.fset, base, lm['event'], hr)
            if sel is BH.fset and hr.random() < 0.5 and len(lm['event']) > 1:
                sel = BH.fset.iloc[lm['event']]
            sel.exptset(S.build_rsome(lm['prims'], rso.E(BH.z), hr))
            events.append('late_exptset')
        if ops['late_dvar']:
            wv = m.dvar(1)
            m.st(wv <= 1.0, wv >= 0.0)
            events.append('late_dvar')
        shared_expr = None
        for k, row in enumerate(ext_rows):
            if ops['reuse'] and k == 0:
                # one expression object inside E(maxof(...)) (a slack constraint) and in the
                # real row
                shared_expr = BH.expr(row['e'])
                m.st(rso.E(rso.maxof(shared_expr, shared_expr - 1.0)) <= 1e3)
                BH.add_row(row, lhs=shared_expr)
                events.append('reuse_in_expectation')
            else:
                BH.add_row(row)
        rH = solve_val(m, sname)
    except Exception as e:
        if C.solver_library_error(e):
            ctx.count('solver_library_error')
            return {'status': 'skip', 'reason': 'solver library raised: %s' % type(e).__name__}
        mech = 'history_raises:' + _hist_class(events, ops)
        if 'late_dvar' in events and isinstance(e, ValueError) and 'matmul' in str(e):
            mech = 'dro_dvar_after_constraints_raises'
        return {'status': 'violation', 'mechanism': mech,
                'detail': {'what': 'the history raises, the fresh build of the same model solves',
                           'error': '%s: %s' % (type(e).__name__, str(e)[:100]),
                           'where': _where(e), 'history': events, 'fresh': rF[1]},
                'sig': 'raise', 'nontrivial': True}
    feats = {'front': 'dro', 'ops': sorted(k for k, v in ops.items() if v),
             'events': sorted({e.split(':')[0] for e in events}), 'mode': base['mode'],
             'S': base['S'], 'cone': C.cone_class(fF)}
    sig = '|'.join('%s=%s' % (k, feats[k]) for k in sorted(feats))
    if ops['late_dvar'] or (ops['reuse'] and ext_rows):
        # the fresh model must contain the same extra (slack) objects to be the same model
        pass
    tol = (1e-6 if feats['cone'] == 'L' else 1e-4) * (1 + abs(rF[1]))
    detail = []
    if rH[0] == 'inaccurate':
        return {'status': 'skip', 'reason': 'ECOS inaccurate', 'features': feats}
    if rH[0] != 'optimal':
        if C.definitive_failure(sname, rH[1]):
            detail.append({'what': 'history model reported infeasible/unbounded, fresh build is '
                           'optimal', 'status': rH[1], 'fresh': rF[1], 'history': events})
        else:
            return {'status': 'skip', 'reason': 'history solve numerical', 'features': feats}
    elif abs(rH[1] - rF[1]) > tol:
        detail.append({'what': 'optimum depends on the build history', 'history_value': rH[1],
                       'fresh_value': rF[1], 'history': events})
    if detail:
        return {'status': 'violation', 'mechanism': detail[0]['what'][:40] + ':' +
                _hist_class(events, ops), 'detail': detail[:2], 'features': feats, 'sig': sig,
                'nontrivial': True}
    return {'status': 'held', 'features': feats, 'sig': sig, 'nontrivial': bool(events),
            'observed': {'fresh': rF[1], 'history': rH[1], 'events': events}}
