"""C03 - DRO solutions are safe for every distribution in the ambiguity set.

Reference-model monitor: after each real dro solve the returned event-wise
(affine) decisions are handed to an adversary - an LP over discrete
distributions supported on vertices / boundary points of the scenario supports
with scenario probabilities in the probability set and conditional means in the
expectation sets - which searches for a distribution that beats the reported
optimum or violates an E(...) constraint; constraints without E are attacked
per scenario over that scenario's support.  Every distribution returned is
re-verified (weights, supports, probability set, conditional means) before it
counts as a witness."""
import numpy as np

from rv import dromodel as DR
from rv import sets as S
from rv import common as C
from rv import romodel as R

N_CASES = {'quick': 480, 'thorough': 10000}
TIMEOUT = {'quick': 1500, 'thorough': 6 * 3600}
ANCHORS = ['dro:Model.dro_to_roc', 'dro:Model.ro_to_roc', 'dro:Ambiguity.mix_support',
           'dro:Model.rule_var', 'lp:Scen.suppset', 'lp:Scen.exptset', 'dro:Ambiguity.probset',
           'dro:Model.do_math', 'lp:DecVar.evtadapt', 'lp:DecVarSub.affadapt']
FLOORS = {'judged': {'quick': 250, 'thorough': 5500}, 'nontrivial': 50,
          'counters': {'distributions_verified': 200}}
RULE = ('random dro models: 1-4 scenarios (int / string / custom labels), supports per scenario '
        '(box, 1/inf/2-norm, sumsqr, polytope, singleton, shared), probability sets (fixed, box, '
        '1/inf/2-norm, KL), conditional-mean sets on the whole space and on sub-events (box, '
        'half-space, equality, 1-norm), 1-2 decisions with random event partitions (declared in '
        'random order) and affine adaptation masks, minsup/maxinf of E(affine) or '
        'E(maxof/minof), E and non-E constraints. Non-trivial: optimal and the adversary\'s '
        'value is within 1e-4 of the reported optimum (the bound is tight); distinct by '
        '(scenarios, support kinds, pset, moment styles, partitions, masks, mode, pieces, solver)')
ASSUMPTIONS = ['the adversary affects detection power only; every witness distribution is '
               're-verified']


def gen_case(rng, idx, tier):
    if rng.random() < 0.1:
        from rv import evconvex
        return evconvex.gen(rng, tier)
    return DR.gen(rng, tier)


def features(spec, sname):
    return {'S': spec['S'], 'labels': 'default' if spec['labels'] is None else
            type(spec['labels'][0]).__name__,
            'supports': sorted({p['t'] for s in spec['supports'] for p in s}),
            'pset': spec['pset']['t'],
            'moments': sorted({('all' if len(m['event']) == spec['S'] else 'sub') + ':' +
                               m['prims'][0]['t'] for m in spec['moments']}),
            'partitions': sorted({len(v['partition']) for v in spec['xvars']}),
            'affine': sorted({v['mask'] is not None for v in spec['xvars']}),
            'mode': spec['mode'], 'pieces': len(spec['pieces']), 'wass': bool(spec.get('wass')),
            'own_ambiguity': bool(spec.get('amb2')) and any(r.get('amb') for r in spec['rows']),
            'rows': sorted({('E' if r['expect'] else 'R') + r['sense'] for r in spec['rows']}),
            'solver': sname}


def judge(spec, B, sname, ctx):
    sol = DR.read_solution(spec, B)
    val = B.model.get()
    adv = DR.Adversary(spec, rng=np.random.default_rng(spec['spell'] + 5))
    viols = []
    osgn = 1 if spec['mode'] == 'minsup' else -1
    tolv = R.tol_for(sname, abs(val)) * 10
    wv, dist = adv.worst_expectation(spec['pieces'], sol, osgn)
    tight = False
    if wv is not None:
        bad = DR.verify_distribution(spec, dist)
        ctx.count('distributions_verified')
        if bad is None:
            ev = DR.expectation(spec, spec['pieces'], sol, dist, osgn)
            if ev - osgn * val > tolv:
                viols.append({'what': 'a distribution in the ambiguity set gives a worse '
                              'expected objective than the reported optimum',
                              'reported': float(val), 'expected_objective': float(osgn * ev),
                              'distribution': dist_json(dist)})
            tight = abs(ev - osgn * val) <= 1e-4 * (1 + abs(val))
        else:
            ctx.count('adversary_distribution_rejected')
    adv_b = None
    for k, row in enumerate(spec['rows']):
        sgn = 1 if row['sense'] == 'le' else -1
        vw = DR.view(spec, row)
        if vw is not spec and adv_b is None:
            adv_b = DR.Adversary(vw, rng=np.random.default_rng(spec['spell'] + 6))
        radv = adv_b if vw is not spec else adv
        if row['expect']:
            wv, dist = radv.worst_expectation([row['e']], sol, sgn)
            if wv is None:
                continue
            ctx.count('distributions_verified')
            if DR.verify_distribution(vw, dist) is not None:
                continue
            ev = DR.expectation(spec, [row['e']], sol, dist, sgn)
            if ev - sgn * row['rhs'] > R.tol_for(sname, abs(row['rhs']) + abs(ev)) * 5:
                viols.append({'what': 'E-constraint violated under a distribution of the '
                              'ambiguity set', 'row': k, 'expectation': float(sgn * ev),
                              'rhs': row['rhs'], 'sense': row['sense'],
                              'distribution': dist_json(dist)})
        else:
            for s in range(spec['S']):
                al, be = DR.value_coeffs(spec, row['e'], sol, s)
                z, ex = S.maximize(vw['supports'][s], sgn * be, spec['nz'],
                                   z0=np.array(vw['centers'][s]))
                if z is None:
                    continue
                g = sgn * (al + be @ z) - sgn * row['rhs']
                if g > R.tol_for(sname, abs(row['rhs']) + np.abs(be).sum() * 3 + abs(al)) \
                        and S.set_viol(vw['supports'][s], z) <= 1e-6:
                    viols.append({'what': 'scenario-wise constraint violated at a realisation of '
                                  'the scenario\'s support', 'row': k, 'scenario': s,
                                  'z': z.tolist(), 'excess': float(g)})
    # bounds on decisions per scenario (non-E rows of the model)
    for vi, v in enumerate(spec['xvars']):
        for ev_i in range(len(v['partition'])):
            x0, X = sol[vi][0][ev_i], sol[vi][1][ev_i]
            for s in v['partition'][ev_i]:
                for i in range(v['n']):
                    for sgn in (1, -1):
                        z, ex = S.maximize(spec['supports'][s], sgn * X[i], spec['nz'],
                                           z0=np.array(spec['centers'][s]))
                        if z is None:
                            continue
                        g = sgn * (x0[i] + X[i] @ z) - v['M']
                        if g > R.tol_for(sname, v['M']) * 5:
                            viols.append({'what': 'bound on a decision violated at a realisation',
                                          'var': vi, 'entry': i, 'scenario': s, 'z': z.tolist(),
                                          'excess': float(g)})
    return viols, {'value': float(val), 'tight': bool(tight), 'adversary_exact': adv.exact}


def dist_json(dist):
    return {'p': np.asarray(dist['p']).tolist(),
            'atoms': [(int(s), np.asarray(z).tolist(), float(w)) for s, z, w in dist['atoms']]}


def solve_model(B, rng, ctx):
    f = B.model.do_math()
    sname = R.pick_solver(f, rng)
    try:
        C.solve(B.model, sname)
    except Exception as e:
        if sname == 'grb' and 'license' in str(e):
            sname = 'eco'
            C.solve(B.model, sname)
        else:
            raise
    return sname


def run_case(spec, ctx):
    if spec.get('kind') == 'evconvex':
        from rv import evconvex
        return evconvex.run(spec, ctx, exact=False)
    rng = np.random.default_rng(spec['spell'])
    try:
        B = DR.build(spec)
        sname = solve_model(B, rng, ctx)
    except Exception as e:
        ctx.count('rsome_raises:' + type(e).__name__)
        return {'status': 'skip', 'reason': 'rsome raised: %s: %s' % (type(e).__name__,
                                                                      str(e)[:70])}
    f = features(spec, sname)
    sig = '|'.join('%s=%s' % (k, f[k]) for k in sorted(f))
    if not C.optimal(B.model):
        ctx.count('not_optimal')
        return {'status': 'skip', 'reason': 'not optimal (%s %s)' % (
            sname, getattr(B.model.solution, 'status', None)), 'features': f}
    if sname == 'eco' and 'Optimal' not in str(B.model.solution.status):
        return {'status': 'skip', 'reason': 'ECOS inaccurate', 'features': f}
    viols, info = judge(spec, B, sname, ctx)
    if viols:
        return {'status': 'violation', 'mechanism': viols[0]['what'][:60], 'detail': viols[:2],
                'features': f, 'sig': sig, 'nontrivial': True, 'observed': info}
    return {'status': 'held', 'features': f, 'sig': sig, 'nontrivial': info['tight'],
            'observed': info}
