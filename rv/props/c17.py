"""C17 - misuse fails loudly and models do not interfere with each other.

(a) Misuse matrix, enumerated exhaustively: each entry performs one misuse
    (foreign constraint / variable / set / random variable, objective
    redefinition, non-scalar objective, reading results of an unsolved or failed
    model, ambiguity() after constraints) on a small owner model; RSOME must
    raise before a program is compiled, and the owner model must afterwards
    solve to the same optimum as an untouched copy (nothing leaked in).
(b) Non-interference: model A built and solved alone versus built with model
    B's construction and solves interleaved; optimum and compiled fingerprint
    of A (and of B) must be identical; class-level state of every RSOME class is
    snapshotted before and after."""
import warnings

import numpy as np

from rv import common as C
from rv import source as SRC

FRONTS = ['ro', 'dro']
ANCHORS = ['ro:Model.st', 'dro:Model.st', 'lp:Model.st', 'lp:RoConstr.forall', 'ro:Model.minmax',
           'dro:Model.ambiguity', 'lp:Scen.suppset', 'lp:Scen.exptset', 'dro:Ambiguity.probset',
           'ro:Model.get', 'dro:Model.get', 'lp:Vars.get', 'lp:DecRule.adapt',
           'lp:DecVarSub.affadapt', 'lp:Affine.__add__', 'lp:Affine.__mul__']
RULE = ('(a) exhaustive table of misuse entries x owner front end x foreign front end; an entry is '
        'held when RSOME raises before do_math() succeeds and the owner model still solves to '
        'its clean optimum; (b) random pairs of models (LP/MILP/conic/ro[/dro]) with B built and '
        'solved at a random point inside A\'s construction. Non-trivial: every misuse entry; '
        'interleavings where both models solve; distinct by entry name/front ends or by '
        '(classes, hook point)')
ASSUMPTIONS = ['a misuse that raises only at do_math() does not produce a model and is held '
               '(stage recorded)']
FLOORS = {'judged': {'quick': 250, 'thorough': 2000}, 'nontrivial': 120,
          'counters': {'misuse_raised': 150, 'interleavings_compared': 60}}


def _mk(front, nscen=2, pad=0, zpad=0):
    """pad / zpad unused decision / random variables declared first shift every index, so that
    a foreign object whose indices happen to fit the owner's dimensions is also produced."""
    import rsome as rso
    from rsome import ro, dro
    m = ro.Model() if front == 'ro' else dro.Model(nscen)
    if pad:
        m.dvar(pad)
    if zpad:
        m.rvar(zpad)
    x = m.dvar(3)
    z = m.rvar(2)
    d = {'m': m, 'x': x, 'z': z, 'front': front, 'rso': rso}
    d['spare'] = m.ldr(2) if front == 'ro' else m.dvar(2)
    if front == 'ro':
        y = m.ldr(2)
        y.adapt(z)
        d['y'] = y
        d['uset'] = (z >= -1, z <= 1)
        m.minmax(x.sum() + (x[:2] * z).sum(), d['uset'])
        m.st(x >= -1, x <= 2)
        m.st(x[0] + x[1] + z.sum() >= 0.5)
    else:
        amb = m.ambiguity()
        amb.suppset(z >= -1, z <= 1)
        d['amb'] = amb
        m.minsup(rso.E(x.sum() + (x[:2] * z).sum()), amb)
        m.st(x >= -1, x <= 2)
        m.st(x[0] + x[1] + z.sum() >= 0.5)
    return d


def _clean_value(front):
    d = _mk(front)
    C.solve(d['m'], 'def')
    return d['m'].get()


# each entry: name, function(owner d1, foreign d2) performing the misuse up to handing the
# object to the owner model.  Must raise.
def _entries():
    E = []

    def add(name, fn, fronts1=FRONTS, fronts2=FRONTS, needs=None):
        for f1 in fronts1:
            for f2 in fronts2:
                E.append({'name': name, 'f1': f1, 'f2': f2, 'fn': fn})

    add('st foreign linear constraint', lambda a, b: a['m'].st(b['x'].sum() <= 1))
    add('st foreign bound', lambda a, b: a['m'].st(b['x'] <= 1))
    add('st foreign convex constraint', lambda a, b: a['m'].st(b['rso'].norm(b['x']) <= 1))
    add('st foreign exp constraint', lambda a, b: a['m'].st(b['rso'].exp(b['x'][0]) <= 1))
    add('st foreign robust constraint',
        lambda a, b: a['m'].st((b['x'][:2] * b['z']).sum() <= 1))
    add('st foreign piecewise constraint',
        lambda a, b: a['m'].st(b['rso'].maxof(b['x'][0], b['x'][1]) <= 1))
    add('st list with a foreign constraint',
        lambda a, b: a['m'].st([a['x'][0] <= 1, b['x'][0] <= 1]))
    add('add foreign variables', lambda a, b: a['m'].st(a['x'] + b['x'] <= 1))
    add('subtract foreign variables', lambda a, b: a['m'].st(a['x'].sum() - b['x'].sum() <= 1))
    add('compare with foreign variables', lambda a, b: a['m'].st(a['x'] <= b['x']))
    add('decision times foreign random', lambda a, b: a['m'].st((a['x'][:2] * b['z']).sum() <= 1))
    add('decision matmul foreign random', lambda a, b: a['m'].st(a['x'][:2] @ b['z'] <= 1))
    add('foreign random plus decision', lambda a, b: a['m'].st(a['x'][0] + b['z'][0] <= 1))
    add('concat with foreign variables',
        lambda a, b: a['m'].st(a['rso'].concat([a['x'], b['x']]).sum() <= 1))
    add('maxof with foreign variable',
        lambda a, b: a['m'].st(a['rso'].maxof(a['x'][0], b['x'][0]) <= 1))
    add('norm of mixed sum', lambda a, b: a['m'].st(a['rso'].norm(a['x'] - b['x']) <= 1))
    add('rsocone with foreign variable',
        lambda a, b: a['m'].st(a['rso'].rsocone(a['x'], b['x'][0], a['x'][1])))
    add('expcone with foreign variable',
        lambda a, b: a['m'].st(a['rso'].expcone(a['x'][0], b['x'][0], 1.0)))
    add('kldiv with foreign variable',
        lambda a, b: a['m'].st(a['rso'].kldiv(a['x'], b['x'], 0.1)))
    add('forall with foreign set',
        lambda a, b: a['m'].st(((a['x'][:2] * a['z']).sum() <= 5).forall(
            b['z'] >= -1, b['z'] <= 1)), fronts1=['ro'])
    add('forall with foreign support set (dro)',
        lambda a, b: a['m'].st(((a['x'][:2] * a['z']).sum() <= 5).forall(
            [b['z'] >= -1, b['z'] <= 1])), fronts1=['dro'])
    add('forall with foreign ambiguity set',
        lambda a, b: a['m'].st(((a['x'][:2] * a['z']).sum() <= 5).forall(b['amb'])),
        fronts1=['dro'], fronts2=['dro'])
    add('suppset with foreign random variable',
        lambda a, b: a['amb'].suppset(b['z'] >= -1, b['z'] <= 1), fronts1=['dro'])
    add('exptset with foreign expectation',
        lambda a, b: a['amb'].exptset(b['rso'].E(b['z']) <= 0.5), fronts1=['dro'],
        fronts2=['dro'])
    add('exptset with support variable instead of expectation',
        lambda a, b: a['amb'].exptset(a['z'] <= 0.5), fronts1=['dro'], fronts2=['dro'])
    add('probset with foreign probabilities',
        lambda a, b: a['amb'].probset(b['m'].p <= 0.9), fronts1=['dro'], fronts2=['dro'])
    add('ldr adapt to foreign random variable',
        lambda a, b: _ro_fresh_ldr(a).adapt(b['z']), fronts1=['ro'])
    add('dro adapt to foreign random variable',
        lambda a, b: _dro_fresh_var(a).adapt(b['z']), fronts1=['dro'])
    add('ldr adapt to foreign random variable after an own one',
        lambda a, b: (_ro_fresh_ldr(a).adapt(a['z'][0]), _ro_fresh_ldr(a).adapt(b['z'][1])),
        fronts1=['ro'])
    add('ldr slice adapt to foreign random variable after an own one',
        lambda a, b: (_ro_fresh_ldr(a)[0].adapt(a['z'][0]), _ro_fresh_ldr(a)[1].adapt(b['z'][1])),
        fronts1=['ro'])
    add('dro slice adapt to foreign random variable',
        lambda a, b: _dro_fresh_var(a)[0].adapt(b['z'][1]), fronts1=['dro'])
    add('dro slice adapt to foreign random variable after an own one',
        lambda a, b: (_dro_fresh_var(a)[0].adapt(a['z'][0]), _dro_fresh_var(a)[1].adapt(b['z'][1])),
        fronts1=['dro'])
    add('dro adapt to foreign random variable after an own one',
        lambda a, b: (_dro_fresh_var(a).adapt(a['z'][0]), _dro_fresh_var(a).adapt(b['z'][1])),
        fronts1=['dro'])
    add('suppset with foreign random variable after an own one',
        lambda a, b: (a['amb'].suppset(a['z'] >= -1, a['z'] <= 1),
                      a['amb'].suppset(b['z'] >= -1, b['z'] <= 1)), fronts1=['dro'])
    add('forall with foreign set after an own one',
        lambda a, b: a['m'].st(((a['x'][:2] * a['z']).sum() <= 5).forall(
            a['z'] >= -1, a['z'] <= 1).forall(b['z'] >= -1, b['z'] <= 1)), fronts1=['ro'])
    # algebra on an expression that is already bi-affine (decision times own random)
    own = lambda a: (a['x'][:2] * a['z']).sum()      # noqa: E731
    own_v = lambda a: a['x'][:2] * a['z']            # noqa: E731
    add('bi-affine plus foreign random', lambda a, b: a['m'].st(own(a) + b['z'][1] <= 1))
    add('foreign random plus bi-affine', lambda a, b: a['m'].st(b['z'][1] + own(a) <= 1))
    add('bi-affine minus foreign random', lambda a, b: a['m'].st(own(a) - b['z'][1] <= 1))
    add('foreign random minus bi-affine', lambda a, b: a['m'].st(b['z'][1] - own(a) <= 1))
    add('bi-affine compared with foreign random', lambda a, b: a['m'].st(own_v(a) <= b['z']))
    add('bi-affine plus foreign random vector', lambda a, b: a['m'].st(own_v(a) + b['z'] <= 1))
    add('bi-affine plus foreign affine of random',
        lambda a, b: a['m'].st(own(a) + (2 * b['z']).sum() + 1 <= 1))
    add('bi-affine plus foreign bi-affine',
        lambda a, b: a['m'].st(own(a) + (b['x'][:2] * b['z']).sum() <= 1))
    add('bi-affine plus foreign decision', lambda a, b: a['m'].st(own(a) + b['x'][0] <= 1))
    add('bi-affine times foreign-free then foreign decision',
        lambda a, b: a['m'].st(2 * own(a) - b['x'].sum() <= 1))
    add('rule plus foreign random', lambda a, b: a['m'].st(a['y'].sum() + b['z'][0] <= 1),
        fronts1=['ro'])
    add('rule times own random plus foreign random',
        lambda a, b: a['m'].st(a['y'][0] + a['x'][0] * a['z'][0] + b['z'][0] <= 1),
        fronts1=['ro'])
    # every argument position of the multi-argument functions
    def fx(d, i=0):
        return d['x'][i]
    add('rsocone foreign y', lambda a, b: a['m'].st(a['rso'].rsocone(a['x'], fx(b), fx(a, 1))))
    add('rsocone foreign z', lambda a, b: a['m'].st(a['rso'].rsocone(a['x'], fx(a), fx(b, 1))))
    add('rsocone foreign x', lambda a, b: a['m'].st(a['rso'].rsocone(b['x'], fx(a), fx(a, 1))))
    add('expcone foreign y', lambda a, b: a['m'].st(a['rso'].expcone(fx(b), fx(a), 1.0)))
    add('expcone foreign z', lambda a, b: a['m'].st(a['rso'].expcone(fx(a), fx(a, 1), fx(b))))
    add('expcone foreign x and z',
        lambda a, b: a['m'].st(a['rso'].expcone(fx(a), fx(b, 1), fx(b))))
    add('expcone foreign affine x',
        lambda a, b: a['m'].st(a['rso'].expcone(fx(a), 2 * fx(b) + 1, 1.0)))
    add('kldiv foreign p', lambda a, b: a['m'].st(a['rso'].kldiv(b['x'], a['x'], 0.1)))
    add('kldiv foreign affine q',
        lambda a, b: a['m'].st(a['rso'].kldiv(a['x'], 1.0 * b['x'], 0.1)))
    # (whole variables: the dro front end refuses sliced scales of perspective atoms anyway)
    add('pexp foreign scale', lambda a, b: a['m'].st(a['rso'].pexp(a['x'], b['x']) <= 1))
    add('pexp foreign affine scale',
        lambda a, b: a['m'].st(a['rso'].pexp(a['x'], 2 * b['x']) <= 1))
    add('pexp foreign argument', lambda a, b: a['m'].st(a['rso'].pexp(b['x'], a['x']) <= 1))
    add('plog foreign scale', lambda a, b: a['m'].st(a['rso'].plog(a['x'], b['x']) >= -1))
    add('plog foreign argument', lambda a, b: a['m'].st(a['rso'].plog(b['x'], a['x']) >= -1))
    add('pexp foreign scalar scale',
        lambda a, b: a['m'].st(a['rso'].pexp(fx(a), fx(b)) <= fx(a, 1)))
    add('maxof foreign first', lambda a, b: a['m'].st(a['rso'].maxof(fx(b), fx(a)) <= 1))
    add('minof foreign', lambda a, b: a['m'].st(a['rso'].minof(fx(a), fx(b)) >= -1))
    add('sumsqr foreign among several',
        lambda a, b: a['m'].st(a['rso'].sumsqr(fx(a), fx(b)) <= 1))
    add('fnorm / norm of concat with foreign',
        lambda a, b: a['m'].st(a['rso'].norm(a['rso'].concat([a['x'], b['x']])) <= 1))
    add('convex of foreign compared with own', lambda a, b: a['m'].st(a['rso'].norm(b['x']) <= fx(a)))
    add('exp of foreign compared with own', lambda a, b: a['m'].st(a['rso'].exp(fx(b)) <= fx(a)))
    add('own convex compared with foreign', lambda a, b: a['m'].st(a['rso'].norm(a['x']) <= fx(b)))
    add('own exp compared with foreign', lambda a, b: a['m'].st(a['rso'].exp(fx(a)) <= fx(b)))
    add('own square plus foreign', lambda a, b: a['m'].st(a['rso'].square(fx(a)) + fx(b) <= 1))
    add('foreign objective in min', lambda a, b: a['m'].min(b['x'].sum()))
    add('E of foreign expression', lambda a, b: a['m'].st(a['rso'].E(b['x'].sum()) <= 1),
        fronts1=['dro'])
    add('own times foreign random inside E',
        lambda a, b: a['m'].st(a['rso'].E((a['x'][:2] * b['z']).sum()) <= 1), fronts1=['dro'])
    add('objective redefinition (min, min)', lambda a, b: a['m'].min(a['x'].sum()))
    add('objective redefinition (min, max)', lambda a, b: a['m'].max(a['x'].sum()))
    add('objective redefinition (minmax/minsup again)',
        lambda a, b: (a['m'].minmax(a['x'].sum(), a['uset']) if a['front'] == 'ro'
                      else a['m'].minsup(a['x'].sum(), a['amb'])))
    # a first objective that is numerically zero (feasibility models) is an objective too
    def redef_zero(a, first, second, zero):
        from rsome import ro as ro_, dro as dro_
        m_ = ro_.Model() if a['front'] == 'ro' else dro_.Model(2)
        x_ = m_.dvar(2)
        z_ = m_.rvar(2)
        m_.st(x_ >= 0, x_ <= 1)
        if first in ('min', 'max'):
            getattr(m_, first)(zero)
        elif a['front'] == 'ro':
            getattr(m_, first)(zero, z_ >= -1, z_ <= 1)
        else:
            fs_ = m_.ambiguity()
            fs_.suppset(z_ >= -1, z_ <= 1)
            getattr(m_, {'minmax': 'minsup', 'maxmin': 'maxinf'}[first])(zero, fs_)
        getattr(m_, second)(x_.sum())          # has to raise
    for first_ in ('min', 'max', 'minmax', 'maxmin'):
        for second_ in ('min', 'max'):
            for zero_, zn_ in ((0, 'int 0'), (0.0, 'float 0'), (np.float64(0.0), 'np.float64 0')):
                add('objective redefinition after %s(%s), then %s' % (first_, zn_, second_),
                    lambda a, b, f_=first_, s_=second_, z0_=zero_: redef_zero(a, f_, s_, z0_))
    add('ambiguity() after constraints', lambda a, b: a['m'].ambiguity(), fronts1=['dro'],
        fronts2=['dro'])
    return E


def _ro_fresh_ldr(a):
    return a['spare']


def _dro_fresh_var(a):
    return a['spare']


def _objective_entries():
    """Non-scalar objectives and result reads; single model."""
    out = []

    def obj_case(name, build):
        for f in FRONTS:
            for how in ('min', 'max'):
                out.append({'name': 'non-scalar objective: ' + name + ' (' + how + ')', 'f1': f,
                            'f2': '-', 'kind': 'objective', 'build': build, 'how': how})

    obj_case('variable array', lambda d: d['x'])
    obj_case('slice', lambda d: d['x'][:2])
    obj_case('affine array', lambda d: 2 * d['x'] + 1)
    obj_case('element-wise convex', lambda d: d['rso'].square(d['x']) if d['how'] == 'min'
             else d['rso'].log(d['x']))
    obj_case('bi-affine array', lambda d: d['x'][:2] * d['z'])
    obj_case('abs array', lambda d: abs(d['x']) if d['how'] == 'min' else -abs(d['x']))
    for f in FRONTS:
        for state in ('unsolved', 'infeasible', 'unbounded', 'solved_then_infeasible',
                      'solved_then_infeasible_bound', 'solved_then_infeasible_other_solver',
                      'solved_then_infeasible_soc_solve'):
            for probe in ('model.get', 'x.get', 'x()', 'expr()', 'slice.get', 'dual', 'ldr.get',
                          'convex()'):
                if probe in ('dual', 'ldr.get') and f == 'dro':
                    continue
                out.append({'name': 'read %s of %s model' % (probe, state), 'f1': f, 'f2': '-',
                            'kind': 'read', 'state': state, 'probe': probe})
    return out


TABLE = None


def table():
    global TABLE
    if TABLE is None:
        TABLE = _entries() + _objective_entries()
    return TABLE


N_INTER = {'quick': 200, 'thorough': 4000}
N_CASES = {'quick': 0, 'thorough': 0}   # filled below


def _n(tier):
    return len(table()) + N_INTER[tier]


N_CASES = {'quick': _n('quick'), 'thorough': _n('thorough')}
TIMEOUT = {'quick': 1500, 'thorough': 4 * 3600}
EXHAUSTIVE = False


def gen_case(rng, idx, tier):
    T = table()
    if idx < len(T):
        e = T[idx]
        return {'kind': e.get('kind', 'misuse'), 'entry': idx, 'name': e['name'], 'f1': e['f1'],
                'f2': e['f2']}
    a = SRC.gen(rng, tier, kinds=['lp', 'milp', 'conic', 'ro', 'ro'] +
                (['dro'] if SRC.HAS_DRO else []))
    b = SRC.gen(rng, tier, kinds=['lp', 'conic', 'ro', 'ro'] + (['dro'] if SRC.HAS_DRO else []))
    return {'kind': 'interleave', 'a': a, 'b': b,
            'point': ['declared', 'objective', 'row'][int(rng.integers(3))],
            'solve_b_inside': bool(rng.random() < 0.7)}


def class_state():
    import inspect
    import rsome
    from rsome import lp, ro, dro, socp, gcp, subroutines
    snap = {}
    for mod in (lp, ro, dro, socp, gcp, subroutines):
        for name, obj in vars(mod).items():
            if inspect.isclass(obj) and obj.__module__ == mod.__name__:
                for k, v in vars(obj).items():
                    if not callable(v) and not k.startswith('__') and \
                            not isinstance(v, (property, staticmethod, classmethod)):
                        snap['%s.%s.%s' % (mod.__name__, name, k)] = repr(v)[:200]
            elif isinstance(obj, (int, float, str, tuple, list, dict)) and not name.startswith('__'):
                snap['%s.%s' % (mod.__name__, name)] = repr(obj)[:200]
    return snap


def run_case(spec, ctx):
    if spec['kind'] == 'interleave':
        return run_interleave(spec, ctx)
    e = table()[spec['entry']]
    feats = {'entry': e['name'], 'f1': e['f1'], 'f2': e['f2']}
    sig = '%s|%s|%s' % (e['name'], e['f1'], e['f2'])
    if spec['kind'] == 'misuse':
        clean = _clean_value(e['f1'])
        a = _mk(e['f1'])
        b = _mk(e['f2'])
        stage = 'misuse'
        raised = None
        try:
            with warnings.catch_warnings():
                warnings.simplefilter('ignore')
                e['fn'](a, b)
                stage = 'do_math'
                a['m'].do_math()
                stage = 'compiled'
        except Exception as ex:
            raised = '%s: %s' % (type(ex).__name__, str(ex)[:70])
        feats['stage'] = stage
        deliberate = raised is not None and stage == 'misuse' and any(
            k in raised for k in ('ismatch', 'not match', 'not for this', 'not defined for',
                                  'Unknown model', 'Unsupported constraints', 'Redefinition',
                                  'Can not define', 'must be specified before'))
        if raised is not None and not deliberate:
            # refused only while compiling, or by an error that is not a model check (dimension
            # errors and the like): make sure the refusal is not an accident of the two models
            # having different sizes
            for pad, pad1, zpad in [(p2, p1, zp)
                                    for p1, p2 in [(k, 0) for k in range(0, 9)] +
                                    [(0, k) for k in range(1, 9)] + [(2, 2), (4, 3), (3, 4)]
                                    for zp in (0, 1, 2)]:
                if True:
                    ctx.count('size_sweep_models')
                    a2 = _mk(e['f1'], pad=pad1)
                    b2 = _mk(e['f2'], pad=pad, zpad=zpad)
                    try:
                        with warnings.catch_warnings():
                            warnings.simplefilter('ignore')
                            e['fn'](a2, b2)
                            a2['m'].do_math()
                    except Exception:
                        continue
                    return {'status': 'violation',
                            'mechanism': 'misuse_accepted_when_sizes_fit:' + e['name'],
                            'detail': {'what': 'misuse compiles silently when the foreign model '
                                       'has as many variables as the owner expects; with other '
                                       'sizes it only fails on a dimension error',
                                       'entry': e['name'], 'owner': e['f1'], 'foreign': e['f2'],
                                       'owner_pad': pad1, 'foreign_pad': pad,
                                       'foreign_zpad': zpad,
                                       'error_otherwise': raised},
                            'features': feats, 'sig': sig, 'nontrivial': True}
        if raised is None:
            return {'status': 'violation', 'mechanism': 'misuse_accepted:' + e['name'],
                    'detail': {'what': 'misuse did not raise and a program was compiled',
                               'entry': e['name'], 'owner': e['f1'], 'foreign': e['f2']},
                    'features': feats, 'sig': sig, 'nontrivial': True}
        ctx.count('misuse_raised')
        ctx.count('misuse_raised_at:' + stage)
        # nothing may have leaked into the owner model (only checked when the misuse was
        # refused before anything was handed over)
        if stage == 'misuse':
            try:
                C.solve(a['m'], 'def')
                after = a['m'].get()
                if abs(after - clean) > 1e-7 * (1 + abs(clean)):
                    return {'status': 'violation', 'mechanism': 'misuse_leaks:' + e['name'],
                            'detail': {'what': 'owner model changed by a refused misuse',
                                       'clean': clean, 'after': after, 'error': raised},
                            'features': feats, 'sig': sig, 'nontrivial': True}
            except Exception as ex:
                return {'status': 'violation', 'mechanism': 'misuse_breaks_owner:' + e['name'],
                        'detail': {'what': 'owner model unusable after a refused misuse',
                                   'error': '%s: %s' % (type(ex).__name__, str(ex)[:80]),
                                   'misuse_error': raised}, 'features': feats, 'sig': sig,
                        'nontrivial': True}
        return {'status': 'held', 'features': feats, 'sig': sig, 'nontrivial': True,
                'observed': {'raised': raised, 'stage': stage}}
    if spec['kind'] == 'objective':
        import rsome as rso
        from rsome import ro, dro
        m = ro.Model() if e['f1'] == 'ro' else dro.Model(2)
        d = {'m': m, 'x': m.dvar(3), 'z': m.rvar(2), 'rso': rso, 'how': e['how']}
        stage = 'build'
        raised = None
        try:
            obj = e['build'](d)
            stage = 'objective'
            if e['f1'] == 'ro':
                (m.minmax if e['how'] == 'min' else m.maxmin)(obj, d['z'] >= 0, d['z'] <= 1)
            else:
                amb = m.ambiguity()
                amb.suppset(d['z'] >= 0, d['z'] <= 1)
                (m.minsup if e['how'] == 'min' else m.maxinf)(obj, amb)
            m.st(d['x'] >= 0, d['x'] <= 1)
            stage = 'do_math'
            m.do_math()
            stage = 'compiled'
        except Exception as ex:
            raised = '%s: %s' % (type(ex).__name__, str(ex)[:70])
        feats['stage'] = stage
        if raised is None:
            return {'status': 'violation', 'mechanism': 'nonscalar_objective_accepted',
                    'detail': {'what': 'non-scalar objective compiled', 'entry': e['name'],
                               'front': e['f1']}, 'features': feats, 'sig': sig,
                    'nontrivial': True}
        ctx.count('misuse_raised')
        ctx.count('misuse_raised_at:' + stage)
        return {'status': 'held', 'features': feats, 'sig': sig, 'nontrivial': True,
                'observed': {'raised': raised, 'stage': stage}}
    # reads
    import rsome as rso
    from rsome import ro, dro
    f = e['f1']
    m = ro.Model() if f == 'ro' else dro.Model(2)
    x = m.dvar(3)
    z = m.rvar(2)
    y = None
    if f == 'ro':
        y = m.ldr(2)
        y.adapt(z)
        m.minmax(x.sum(), z >= 0, z <= 1)
    else:
        amb = m.ambiguity()
        amb.suppset(z >= 0, z <= 1)
        m.minsup(x.sum(), amb)
    if e['state'] == 'infeasible':
        c = m.st(x[0] + x[1] <= -1)
        m.st(x >= 0, x <= 1)
    elif e['state'] == 'unbounded':
        c = m.st(x[0] + x[1] <= 5)
    elif e['state'].startswith('solved_then'):
        # a first, successful solve; then the model is changed so that the second solve fails:
        # nothing of the first solution may be served afterwards
        c = m.st(x[0] + x[1] >= 0.5)
        lb = m.st(x >= 0)
        ub = m.st(x <= 1)
        C.solve(m, 'def')
        if not C.optimal(m):
            return {'status': 'skip', 'reason': 'first solve failed'}
        first = m.get()
        ctx.count('first_solves')
        if e['state'] == 'solved_then_infeasible_bound':
            m.st(x[2] >= 2)           # a bound object that crosses x <= 1
        else:
            m.st(x[0] + x[1] <= -1)
    else:
        c = m.st(x[0] + x[1] >= 0.5)
        m.st(x >= 0, x <= 1)
    if e['state'] != 'unsolved':
        second = 'def'
        if e['state'] == 'solved_then_infeasible_other_solver':
            second = 'ort'
        if e['state'] == 'solved_then_infeasible_soc_solve':
            # the failing call is soc_solve() (the model has no exponential cone; it is infeasible
            # by construction, so whatever is readable afterwards is stale)
            with warnings.catch_warnings():
                warnings.simplefilter('ignore')
                m.soc_solve(display=False)
            ctx.count('failed_soc_solves')
        else:
            C.solve(m, second)
            if C.optimal(m):
                return {'status': 'skip', 'reason': 'model unexpectedly solved'}
    probes = {'model.get': lambda: m.get(), 'x.get': lambda: x.get(), 'x()': lambda: x(),
              'expr()': lambda: (2 * x + 1)(), 'slice.get': lambda: x[1:].get(),
              'dual': lambda: c.dual(), 'ldr.get': lambda: y.get(),
              'convex()': lambda: rso.norm(x)()}
    try:
        with warnings.catch_warnings(record=True) as w:
            warnings.simplefilter('always')
            v = probes[e['probe']]()
        if v is None and e['probe'] == 'dual':
            ctx.count('misuse_raised')
            return {'status': 'held', 'features': feats, 'sig': sig, 'nontrivial': True,
                    'observed': {'returned': None, 'warned': len(w)}}
        return {'status': 'violation', 'mechanism': 'result_read_returns:%s:%s' %
                (e['probe'], e['state']),
                'detail': {'what': 'reading a result of a model without solution returned a '
                           'value', 'probe': e['probe'], 'state': e['state'], 'front': f,
                           'value': repr(v)[:100]}, 'features': feats, 'sig': sig,
                'nontrivial': True}
    except Exception as ex:
        ctx.count('misuse_raised')
        return {'status': 'held', 'features': feats, 'sig': sig, 'nontrivial': True,
                'observed': {'raised': '%s: %s' % (type(ex).__name__, str(ex)[:60])}}


def _solve_fp(B):
    f = B.model.do_math()
    fp = C.fingerprint(f)
    names = C.solvers_for(f)
    s = names[0] if names else None
    val = None
    if s:
        try:
            C.solve(B.model, s)
            if C.optimal(B.model):
                val = float(B.model.get())
        except Exception as e:
            val = 'raised:' + type(e).__name__
    return fp, val, s


def run_interleave(spec, ctx):
    st0 = class_state()
    try:
        A0 = SRC.build(spec['a'])
        fpA, vA, sA = _solve_fp(A0)
        B0 = SRC.build(spec['b'])
        fpB, vB, sB = _solve_fp(B0)
    except Exception as e:
        return {'status': 'skip', 'reason': 'rsome raised building alone: %s' % type(e).__name__}
    inner = {}
    fired = [False]

    def hook(point, B=None):
        if point == spec['point'] and not fired[0]:
            fired[0] = True
            Bi = SRC.build(spec['b'])
            inner['B'] = Bi
            if spec['solve_b_inside']:
                inner['res'] = _solve_fp(Bi)

    try:
        A1 = SRC.build(spec['a'], variant={'hook': hook})
        fpA1, vA1, _ = _solve_fp(A1)
        if 'B' in inner:
            resB = _solve_fp(inner['B'])
        else:
            resB = None
    except Exception as e:
        return {'status': 'violation', 'mechanism': 'interleaving_raises',
                'detail': {'what': 'building A with B interleaved raises, alone it does not',
                           'error': '%s: %s' % (type(e).__name__, str(e)[:80])},
                'sig': 'interleave-raise', 'nontrivial': True}
    st1 = class_state()
    feats = {'a': spec['a']['kind'], 'b': spec['b']['kind'], 'point': spec['point'],
             'fired': fired[0], 'solve_inside': spec['solve_b_inside']}
    sig = '|'.join('%s=%s' % (k, feats[k]) for k in sorted(feats))
    detail = []
    ctx.count('interleavings_compared')
    if fpA1 != fpA:
        detail.append({'what': 'compiled program of A differs when B is interleaved',
                       'fields': C.formula_diff(A1.model.do_math(), A0.model.do_math())})
    if not _same(vA, vA1):
        detail.append({'what': 'optimum of A differs when B is interleaved', 'alone': vA,
                       'interleaved': vA1})
    if resB is not None:
        if resB[0] != fpB:
            detail.append({'what': 'compiled program of B differs when built inside A'})
        if not _same(vB, resB[1]):
            detail.append({'what': 'optimum of B differs when built inside A', 'alone': vB,
                           'inside': resB[1]})
    if st1 != st0:
        ch = [k for k in st1 if st0.get(k) != st1[k]] + [k for k in st0 if k not in st1]
        detail.append({'what': 'class-level state changed', 'attributes': ch[:6]})
    if detail:
        return {'status': 'violation', 'mechanism': detail[0]['what'], 'detail': detail[:3],
                'features': feats, 'sig': sig, 'nontrivial': True}
    return {'status': 'held', 'features': feats, 'sig': sig,
            'nontrivial': bool(fired[0] and isinstance(vA, float)),
            'observed': {'A': vA, 'B': vB}}


def _same(a, b):
    if isinstance(a, float) and isinstance(b, float):
        return abs(a - b) <= 1e-9 * (1 + abs(a))
    return a == b
