"""C08 - do_math(primal=False) is a true dual.

Differential monitor: for one model both compiled programs are solved through
the installed interfaces; the dual's optimal value must be minus the primal's.
The primal is feasible and bounded by construction (strictly feasible when it
has cones), so a dual that no interface can solve is a violation as well."""
import numpy as np

from rv import source as SRC
from rv import common as C

N_CASES = {'quick': 3000, 'thorough': 24000}
TIMEOUT = {'quick': 1500, 'thorough': 6 * 3600}
ANCHORS = ['lp:Model.do_math', 'socp:Model.do_math', 'gcp:Model.do_math', 'ro:Model.do_math']
FLOORS = {'judged': {'quick': 2000, 'thorough': 16000}, 'nontrivial': 120}
RULE = ('continuous models: LPs with every per-variable bound pattern (free, >=0, <=0, lower, '
        'upper, both, fixed at 0, fixed at non-zero; as bound objects and as rows), equalities '
        'and inequalities, SOC/exp-cone models over all atoms, robust counterparts of ro models, '
        'dro models; primal and dual solved by every supporting interface. Non-trivial: both '
        'optimal and |optimum| > 1e-6; distinct by (class, cone class, bound patterns, senses, '
        'solvers)')
ASSUMPTIONS = ['solvers are trusted on programs they report optimal',
               'ECOS numerical statuses are not judged']


def gen_case(rng, idx, tier):
    kinds = ['lp', 'lp', 'lp', 'conic', 'conic', 'ro', 'ro']
    if SRC.HAS_DRO:
        kinds.append('dro')
    if rng.random() < 0.06:
        # models made of exponential-cone constraints only (no row, no bound, no second-order
        # cone), grown in two steps with a dual formulation in between: the second dual has to
        # be the dual of the grown model
        n = int(rng.integers(1, 4))
        return {'kind': 'pureexp', 'spec': {
            'n': n, 'a': np.round(rng.uniform(0.5, 2.0, n), 2).tolist(),
            'b': np.round(rng.uniform(-0.5, 0.5, n), 2).tolist(),
            'w': np.round(rng.uniform(0.5, 2.0, n), 2).tolist(),
            'c': np.round(rng.uniform(0.1, 0.8, n), 2).tolist(),
            'late': ['log', 'exp', 'entropy'][int(rng.integers(3))],
            'mid': ['dual', 'both', 'solve'][int(rng.integers(3))]}}
    return SRC.gen(rng, tier, kinds=kinds, ints=False)


class _PB:
    pass


def build_pureexp(sp):
    import rsome as rso
    from rsome import ro
    m = ro.Model()
    n = sp['n']
    x, u, v = m.dvar(n), m.dvar(n), m.dvar(n)
    a, b, w, c = (np.array(sp[k], float) for k in 'abwc')
    m.min(w @ u + w @ v)
    m.st(rso.exp(a * x + b) <= u)
    m.st(rso.exp(-(a * x) + b) <= v)
    if sp['mid'] in ('dual', 'both'):
        m.do_math(primal=False)
    if sp['mid'] in ('both', 'solve'):
        m.do_math()
    if sp['late'] == 'log':
        m.st(rso.log(x) >= c)                   # x >= exp(c) > 0: moves the optimum
    elif sp['late'] == 'exp':
        m.st(rso.exp(-x) <= c)                  # x >= -log(c)
    else:
        m.st(rso.entropy(x) >= -c)              # keeps x in (0, about 1]
    B = _PB()
    B.model = m
    return B


def solve_all(f, ctx, tag):
    res = {}
    for s in C.solvers_for(f):
        if s == 'lpg':
            continue
        try:
            sol = C.solve_formula(f, s)
        except Exception as e:
            if 'license' in str(e):
                continue
            res[s] = ('raised', type(e).__name__)
            continue
        if sol is None:
            continue
        ok = sol.x is not None and not np.isnan(sol.objval)
        st = str(sol.status)
        if s == 'eco':
            if ok and 'Optimal' not in st:
                ctx.count('ecos_inaccurate_' + tag)
                continue
            if not ok and 'infeasible' not in st.lower() and 'unbounded' not in st.lower():
                ctx.count('ecos_numerical_' + tag)
                continue
        res[s] = ('optimal', float(sol.objval)) if ok else ('failed', st)
    return res


def run_case(spec, ctx):
    src = spec
    try:
        B = build_pureexp(src['spec']) if src['kind'] == 'pureexp' else SRC.build(src)
        fp = B.model.do_math()
        fd = B.model.do_math(primal=False)
    except Exception as e:
        ctx.count('rsome_raises_build:' + type(e).__name__)
        return {'status': 'skip', 'reason': 'rsome raised at formulation: %s: %s'
                % (type(e).__name__, str(e)[:60])}
    cls = C.cone_class(fp)
    rp = solve_all(fp, ctx, 'primal')
    popt = {s: v[1] for s, v in rp.items() if v[0] == 'optimal'}
    feats = {'class': src['kind'], 'cone': cls, 'dual_cone': C.cone_class(fd)}
    if src['kind'] == 'lp':
        feats['patterns'] = sorted({b.get('pattern', 'box') for b in src['spec']['bounds']})
        feats['styles'] = sorted({b.get('style') for b in src['spec']['bounds']})
        feats['senses'] = sorted({l['sense'] for l in src['spec']['lin']})
    sig = '|'.join('%s=%s' % (k, feats[k]) for k in sorted(feats))
    if not popt:
        ctx.count('primal_not_solved')
        return {'status': 'skip', 'reason': 'primal not solved: %s' % rp, 'features': feats}
    pvals = list(popt.values())
    tol = (1e-6 if cls == 'L' else 1e-4)
    if max(pvals) - min(pvals) > 10 * tol * (1 + abs(pvals[0])):
        ctx.count('primal_solvers_disagree')
        return {'status': 'skip', 'reason': 'primal solvers disagree', 'features': feats}
    pv = float(np.median(pvals))
    rd = solve_all(fd, ctx, 'dual')
    dopt = {s: v[1] for s, v in rd.items() if v[0] == 'optimal'}
    feats['dual_solvers'] = sorted(rd)
    obs = {'primal': popt, 'dual': {s: v[1] for s, v in rd.items()}}
    if not rd:
        return {'status': 'skip', 'reason': 'no interface for the dual', 'features': feats}
    if not dopt:
        return {'status': 'violation', 'mechanism': classify(src, 'dual_not_solvable', fp),
                'detail': {'what': 'primal is solved, no interface can solve the dual',
                           'primal': popt, 'dual': {s: v for s, v in rd.items()}},
                'features': feats, 'sig': sig, 'nontrivial': True}
    bad = {s: v for s, v in dopt.items() if abs(v + pv) > 20 * tol * (1 + abs(pv))}
    if bad and len(bad) == len(dopt):
        return {'status': 'violation', 'mechanism': classify(src, 'value_mismatch', fp),
                'detail': {'what': 'dual optimum is not minus the primal optimum',
                           'primal': popt, 'dual': dopt}, 'features': feats, 'sig': sig,
                'nontrivial': True}
    if bad:
        ctx.count('dual_solvers_disagree')
        return {'status': 'skip', 'reason': 'dual solvers disagree', 'features': feats}
    return {'status': 'held', 'features': feats, 'sig': sig, 'nontrivial': abs(pv) > 1e-6,
            'observed': obs}


def classify(src, what, fp):
    if src['kind'] == 'lp':
        fixed_nz = any(b['lo'] == b['hi'] and b['lo'] != 0 for b in src['spec']['bounds'])
        return '%s:lp:%s' % (what, 'fixed_nonzero' if fixed_nz else 'other')
    lbf, ubf = np.asarray(fp.lb), np.asarray(fp.ub)
    fixed_nz = bool(np.any((lbf == ubf) & (lbf != 0)))
    return '%s:%s:%s' % (what, src['kind'], 'fixed_nonzero' if fixed_nz else 'other')
