"""C14 - dual() returns valid shadow prices of the user's constraints.

Reference-model monitor: after a real solve of a continuous LP the values
returned by dual() on every constraint object that st() handed back (array-form
rows, single rows, bounds on variables and slices) are checked against the
optimal-dual-certificate identities written on the USER's data: shapes,
stationarity, dual objective = optimum, signs by direction of optimisation."""
import numpy as np

from rv import detmodel as D
from rv import common as C

N_CASES = {'quick': 4800, 'thorough': 30000}
TIMEOUT = {'quick': 1500, 'thorough': 6 * 3600}
ANCHORS = ['lp:LinConstr.dual', 'lp:Bounds.dual', 'lp:def_sol', 'grb_solver:solve',
           'eco_solver:solve', 'lp:Model.do_math']
FLOORS = {'judged': {'quick': 3300, 'thorough': 20000}, 'nontrivial': 100}
RULE = ('feasible bounded continuous LPs (dual certificate built first) through ro.Model: <=, >=, '
        '== rows in array form and reflected spellings, bounds as Bounds objects on whole '
        'variables/slices/entries and as single rows, every bound pattern, min and max; '
        'interfaces HiGHS (default), Gurobi, ECOS. Identities, not values, are checked. '
        'Non-trivial: >= 1 non-zero row dual and >= 1 non-zero bound dual; distinct by (senses, '
        'bound patterns, styles, objective sense, interface)')
ASSUMPTIONS = ['each variable entry carries at most one upper and one lower bound constraint '
               '(as the property states)', 'the solver\'s own multipliers are optimal duals']


def gen_case(rng, idx, tier):
    # (a quarter of the models with 20-50 rows in 5-9 groups of mixed senses)
    spec = D.gen_lp(rng, tier, ints=False, outcome='optimal', front='ro',
                    many_rows=bool(rng.random() < 0.25))
    spec['solver'] = ['def', 'def', 'grb', 'eco'][int(rng.integers(4))]
    # the last group of rows is added after a first solve (and after a first round of dual()
    # reads); the duals are judged after the second solve
    spec['two_stage'] = bool(len(spec['lin']) >= 2 and rng.random() < 0.3)
    # bound objects on reversed / permuted selections of a block (see detmodel._build)
    spec['perm_bounds'] = int(rng.integers(1, 1 << 30)) if rng.random() < 0.5 else None
    return spec


def run_case(spec, ctx):
    sname = spec['solver']
    try:
        if spec.get('two_stage'):
            first = dict(spec)
            first['lin'] = spec['lin'][:-1]
            B = D.build(first)
            C.solve(B.model, sname)
            for cobj in list(getattr(B, 'lin_constr', [])) + \
                    [c_ for _, _, c_ in getattr(B, 'bound_constr', [])]:
                try:
                    cobj.dual()
                except Exception:
                    pass
            l_ = spec['lin'][-1]
            lhs_ = B.mat(l_['A'])
            b_ = np.array(l_['b'], float)
            c_new = (lhs_ <= b_) if l_['sense'] == 'le' else (lhs_ >= b_) \
                if l_['sense'] == 'ge' else (lhs_ == b_)
            B.model.st(c_new)
            B.lin_constr = list(getattr(B, 'lin_constr', [])) + [c_new]
            ctx.count('rows_added_after_first_solve')
        else:
            B = D.build(spec)
        C.solve(B.model, sname)
    except Exception as e:
        ctx.count('rsome_raises:' + type(e).__name__)
        return {'status': 'skip', 'reason': 'rsome raised: %s: %s' % (type(e).__name__,
                                                                      str(e)[:60])}
    if not C.optimal(B.model):
        return {'status': 'skip', 'reason': 'not optimal'}
    if sname == 'eco' and 'Optimal' not in str(B.model.solution.status):
        return {'status': 'skip', 'reason': 'ECOS inaccurate'}
    nx = spec['nx']
    o = spec['obj']
    c = np.array(o['c'], float)
    sgn = 1 if o['sense'] == 'min' else -1
    val = B.model.get()
    detail = []
    grad = np.zeros(nx)
    dobj = 0.0
    nz_row = nz_bnd = 0
    tol = 2e-6 if sname != 'eco' else 2e-5
    scale = 1 + np.max(np.abs(c))

    def get_dual(cobj, tag, want_len):
        try:
            d = cobj.dual()
        except Exception as e:
            detail.append({'what': 'dual() raises', 'constraint': tag,
                           'error': '%s: %s' % (type(e).__name__, str(e)[:80])})
            return None
        if d is None:
            detail.append({'what': 'dual() returns None on a dual-capable interface',
                           'constraint': tag})
            return None
        d = np.asarray(d, float)
        if want_len == 1:
            if d.size != 1:
                detail.append({'what': 'dual() has the wrong shape', 'constraint': tag,
                               'shape': list(d.shape), 'expected': 'scalar'})
                return None
        elif d.shape != (want_len,):
            detail.append({'what': 'dual() has the wrong shape', 'constraint': tag,
                           'shape': list(d.shape), 'expected': [want_len]})
            return None
        if not np.all(np.isfinite(d)):
            detail.append({'what': 'dual() returns non-finite values', 'constraint': tag})
            return None
        return d.reshape(-1)

    def sign_check(d, tag, kind):
        # kind 'le': <= rows and upper bounds (non-positive for min); 'lb': lower bounds
        if kind == 'le' and np.any(sgn * d > tol * scale * 10):
            detail.append({'what': 'dual sign wrong', 'constraint': tag, 'dual': d.tolist(),
                           'sense': o['sense']})
        if kind == 'lb' and np.any(sgn * d < -tol * scale * 10):
            detail.append({'what': 'dual sign wrong', 'constraint': tag, 'dual': d.tolist(),
                           'sense': o['sense']})

    for k, (l, cobj) in enumerate(zip(spec['lin'], getattr(B, 'lin_constr', []))):
        A = np.array(l['A'], float)
        b = np.array(l['b'], float)
        if l['sense'] == 'ge':
            A, b = -A, -b
        d = get_dual(cobj, 'lin%d(%s)' % (k, l['sense']), A.shape[0])
        if d is None:
            continue
        grad += A.T @ d
        dobj += float(d @ b)
        nz_row += int(np.any(np.abs(d) > 1e-7))
        if l['sense'] != 'eq':
            sign_check(d, 'lin%d' % k, 'le')
    for kind, idx, cobj in getattr(B, 'bound_constr', []):
        lo = np.array([spec['bounds'][i]['lo'] for i in idx], float)
        hi = np.array([spec['bounds'][i]['hi'] for i in idx], float)
        d = get_dual(cobj, '%s%s' % (kind, idx), len(idx))
        if d is None:
            continue
        e = np.zeros((len(idx), nx))
        e[np.arange(len(idx)), idx] = 1.0
        if kind == 'L':
            grad += e.T @ d
            dobj += float(d @ lo)
            sign_check(d, 'L%s' % idx, 'lb')
        elif kind == 'U':
            grad += e.T @ d
            dobj += float(d @ hi)
            sign_check(d, 'U%s' % idx, 'le')
        elif kind == 'rowL':          # 1*x >= lo  ->  -x <= -lo
            grad += -e.T @ d
            dobj += float(d @ (-lo))
            sign_check(d, 'rowL%s' % idx, 'le')
        else:                          # -x >= -hi  ->  x <= hi
            grad += e.T @ d
            dobj += float(d @ hi)
            sign_check(d, 'rowU%s' % idx, 'le')
        nz_bnd += int(np.any(np.abs(d) > 1e-7))
    if not any(x['what'].startswith('dual()') for x in detail):
        if np.max(np.abs(grad - c)) > 20 * tol * scale:
            detail.append({'what': 'stationarity fails: objective gradient is not the '
                           'dual-weighted sum of constraint gradients',
                           'c': c.tolist(), 'sum': grad.tolist()})
        if abs(dobj + o['k'] - val) > 20 * tol * (1 + abs(val)) * scale:
            detail.append({'what': 'dual-weighted right-hand sides do not sum to the optimum',
                           'dual_objective': dobj + o['k'], 'optimum': float(val)})
    feats = {'two_stage': bool(spec.get('two_stage')),
             'senses': sorted({l['sense'] for l in spec['lin']}),
             'patterns': sorted({b['pattern'] for b in spec['bounds']}),
             'styles': sorted({b['style'] for b in spec['bounds']}),
             'sense': o['sense'], 'solver': sname}
    sig = '|'.join('%s=%s' % (k, feats[k]) for k in sorted(feats))
    if detail:
        return {'status': 'violation', 'mechanism': detail[0]['what'].split(':')[0] + ':' + sname,
                'detail': detail[:3], 'features': feats, 'sig': sig, 'nontrivial': True}
    return {'status': 'held', 'features': feats, 'sig': sig,
            'nontrivial': bool(nz_row and nz_bnd),
            'observed': {'optimum': float(val), 'dual_objective': dobj + o['k']}}
