"""C04 - the DRO reformulation is exact.

Reference-model monitor: the optimum RSOME reports is compared with an
independent cutting-plane reference (master LP over event-wise affine decisions
against finitely many verified distributions / realisations, separation by the
adversary LP of C03).  Witness discipline as in C02: "optimistic" needs a
verified distribution or realisation at which RSOME's solution fails;
"conservative" needs the reference decisions, re-attacked by the exact adversary,
to be feasible and strictly better.  Special cases: sample-average (singleton
supports, fixed probabilities) and single-scenario = ro model."""
import numpy as np

from rv import dromodel as DR
from rv import sets as S
from rv import common as C
from rv import romodel as R
from rv.props import c03

N_CASES = {'quick': 400, 'thorough': 8000}
TIMEOUT = {'quick': 1500, 'thorough': 6 * 3600}
ANCHORS = ['dro:Model.dro_to_roc', 'dro:Model.ro_to_roc', 'dro:Ambiguity.mix_support',
           'dro:Model.rule_var', 'dro:Model.do_math']
FLOORS = {'judged': {'quick': 220, 'thorough': 4500}, 'nontrivial': 40,
          'counters': {'exact_references': 120}}
RULE = ('dro models as in C03 with compact supports and consistent moment/probability sets '
        '(a member distribution is built first); 70% use supports with enumerable vertices and '
        'polyhedral probability/expectation sets (reference exact), incl. sample-average and '
        'single-scenario special cases. Non-trivial: reference exact and solved in >= 2 '
        'cutting-plane rounds (moment/support information matters); distinct by feature tuple')
ASSUMPTIONS = ['worst-case expectations of max-of-affine functions over polytopes with '
               'conditional-mean constraints are attained on vertex-supported distributions']


def gen_case(rng, idx, tier):
    if rng.random() < 0.1:
        from rv import evconvex
        return evconvex.gen(rng, tier)
    r = rng.random()
    if r < 0.12:
        spec = DR.gen(rng, tier, exact_only=True)
        # sample-average special case
        for s in range(spec['S']):
            c = spec['centers'][s]
            spec['supports'][s] = [{'t': 'box', 'lo': list(c), 'hi': list(c),
                                    'idx': list(range(spec['nz'])), 'center': list(c)}]
        spec['shared'] = False
        spec['pset'] = {'t': 'fixed', 'phat': spec['pset']['phat']}
        spec['moments'] = []
        DR._calibrate(spec, rng)
        spec['special'] = 'saa'
        return spec
    if r < 0.22:
        spec = DR.gen(rng, tier, exact_only=True, force={'S': 1})
        spec['moments'] = []
        DR._calibrate(spec, rng)
        spec['special'] = 'single'
        return spec
    spec = DR.gen(rng, tier, exact_only=(r < 0.8))
    spec['special'] = None
    return spec


def run_case(spec, ctx):
    if spec.get('kind') == 'evconvex':
        from rv import evconvex
        return evconvex.run(spec, ctx, exact=True)
    rng = np.random.default_rng(spec['spell'])
    ref = DR.reference(spec)
    if ref.status != 'optimal':
        ctx.count('reference_' + ref.status)
        return {'status': 'skip', 'reason': 'reference ' + ref.status}
    try:
        B = DR.build(spec)
        sname = c03.solve_model(B, rng, ctx)
    except Exception as e:
        ctx.count('rsome_raises:' + type(e).__name__)
        return {'status': 'skip', 'reason': 'rsome raised: %s: %s' % (type(e).__name__,
                                                                      str(e)[:70])}
    f = c03.features(spec, sname)
    f['special'] = str(spec.get('special'))
    f['ref_exact'] = bool(ref.exact)
    sig = '|'.join('%s=%s' % (k, f[k]) for k in sorted(f))
    osgn = 1 if spec['mode'] == 'minsup' else -1
    if ref.exact:
        ctx.count('exact_references')
    if not C.optimal(B.model):
        st = str(getattr(B.model.solution, 'status', None))
        if C.definitive_failure(sname, st):
            # feasible (zero decision, by calibration) and bounded (decisions boxed)
            return {'status': 'violation', 'mechanism': 'status_mismatch', 'features': f,
                    'sig': sig, 'nontrivial': True,
                    'detail': {'what': 'model feasible and bounded by construction is reported '
                               'infeasible/unbounded', 'status': st, 'solver': sname,
                               'reference': ref.value}}
        return {'status': 'skip', 'reason': 'not optimal: ' + st[:40], 'features': f}
    if sname == 'eco' and 'Optimal' not in str(B.model.solution.status):
        return {'status': 'skip', 'reason': 'ECOS inaccurate', 'features': f}
    val = float(B.model.get())
    tol = R.tol_for(sname, abs(val) + abs(ref.value)) * 20
    obs = {'rsome': val, 'reference': float(ref.value), 'rounds': ref.iterations,
           'exact': bool(ref.exact)}
    if osgn * (ref.value - val) > tol:
        viols, info = c03.judge(spec, B, sname, ctx)
        if viols:
            return {'status': 'violation', 'mechanism': 'optimistic', 'features': f, 'sig': sig,
                    'nontrivial': True, 'detail': {'values': obs, 'witness': viols[:2]}}
        ctx.count('optimistic_without_witness')
        return {'status': 'error', 'error': 'optimistic gap %.3g without witness'
                % (osgn * (ref.value - val)), 'features': f}
    if osgn * (val - ref.value) > tol:
        if not ref.exact:
            ctx.count('conservative_gap_inexact_oracle')
            return {'status': 'skip', 'reason': 'gap with inexact adversary', 'features': f}
        # re-attack the reference decisions with a fresh exact adversary
        adv = DR.Adversary(spec, rng=np.random.default_rng(77))
        ok = adv.exact
        wv, dist = adv.worst_expectation(spec['pieces'], ref.sol, osgn)
        if wv is None or osgn * val - wv <= tol:
            ok = False
        vw2 = spec
        advb = None
        if spec.get('amb2'):
            vw2 = dict(spec)
            vw2.update(spec['amb2'])
            advb = DR.Adversary(vw2, rng=np.random.default_rng(78))
            ok = ok and advb.exact
        for kind, pieces, sgn, rhs, tag in DR.all_requirements(spec):
            use2 = tag.endswith('@amb2')
            vw = vw2 if use2 else spec
            if kind == 'E':
                w2, d2 = (advb if use2 else adv).worst_expectation(pieces, ref.sol, sgn)
                if w2 is None or w2 - sgn * rhs > 1e-6 * (1 + abs(rhs)):
                    ok = False
            else:
                for s in range(spec['S']):
                    al, be = DR.value_coeffs(spec, pieces[0], ref.sol, s)
                    z, ex = S.maximize(vw['supports'][s], sgn * be, spec['nz'],
                                       z0=np.array(vw['centers'][s]))
                    if z is None or not ex or sgn * (al + be @ z) - sgn * rhs > 1e-6 * (1 + abs(rhs)):
                        ok = False
        if ok:
            return {'status': 'violation', 'mechanism': 'conservative', 'features': f, 'sig': sig,
                    'nontrivial': True,
                    'detail': {'values': obs, 'better_decisions': [
                        {'x0': [a.tolist() for a in sv[0]], 'X': [a.tolist() for a in sv[1]]}
                        for sv in ref.sol], 'their_worst_case_objective': float(osgn * wv)}}
        ctx.count('conservative_without_witness')
        return {'status': 'error', 'error': 'conservative gap without verified witness',
                'features': f}
    return {'status': 'held', 'features': f, 'sig': sig,
            'nontrivial': bool(ref.exact and ref.iterations >= 2), 'observed': obs}
