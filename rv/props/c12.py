"""C12 - solution queries return the right numbers for the right objects.

Reference-model monitor on models whose solution is known to the harness by
construction: every user variable is pinned (static variables by equalities,
decision rules by robust equalities y == A z + b which force the coefficients
identically in z, dro variables per event through singleton supports and
scenario-wise equalities).  Every query API is then compared with NumPy:
model.get(), x.get(), x(), slices, affine / convex / bi-affine expression calls
with assign(), rule coefficient queries (NaN where no dependence is declared),
per-scenario labelling in dro models."""
import warnings

import numpy as np
import pandas as pd

from rv import atoms as AT
from rv import common as C
from rv import dromodel as DR

N_CASES = {'quick': 2100, 'thorough': 14000}
TIMEOUT = {'quick': 1500, 'thorough': 6 * 3600}
ANCHORS = ['lp:Vars.get', 'lp:DecVar.get', 'lp:DecRule.get', 'ro:Model.get', 'dro:Model.get',
           'lp:Affine.__call__', 'lp:Convex.__call__', 'lp:RoAffine.__call__',
           'lp:DecAffine.__call__', 'lp:DecConvex.__call__', 'lp:DecRoAffine.__call__',
           'subroutines:event_dict', 'dro:Model.rule_var']
FLOORS = {'judged': {'quick': 1500, 'thorough': 10000}, 'nontrivial': 100,
          'counters': {'queries_compared': 5000}}
RULE = ('pinned ro models (variables of shape 0-d..3-d, 1-2 decision rules with random masks) '
        'and pinned dro models (2-5 scenarios with int/str/custom labels, 1-3 variables with '
        'random event partitions declared in random order, optional affine adaptation); all '
        'query kinds on variables, slices, affine/convex/bi-affine expressions. Non-trivial: '
        'pinned values pairwise distinct (a permutation or mislabelling changes the answer) and '
        '>= 8 queries compared; distinct by (front, shapes, partitions, order, labels, atoms)')
ASSUMPTIONS = ['pinning by (robust) equalities determines the solution uniquely; solver accuracy '
               '1e-6 on those tiny programs']

CALL_ATOMS = ['abs', 'norm1', 'norminf', 'norm2', 'square', 'sumsqr', 'pnorm', 'pnormx', 'exp',
              'log', 'softplus', 'entropy', 'power', 'expsum', 'logsum']


def gen_case(rng, idx, tier):
    front = 'ro' if rng.random() < 0.5 else 'dro'
    spec = {'front': front, 'seed': int(rng.integers(1 << 30)),
            'sense': 'min' if rng.random() < 0.5 else 'max'}
    if front == 'ro':
        nd = int(rng.integers(0, 4))
        shape = [int(rng.integers(1, 4)) for _ in range(nd)]
        spec['shape'] = shape
        spec['x0'] = np.round(rng.uniform(0.3, 3.0, shape), 3).tolist()
        nz = int(rng.integers(1, 4))
        spec['nz'] = nz
        spec['zshape'] = [nz] if rng.random() < 0.7 or nz % 2 else [nz // 2, 2]
        rules = []
        for _ in range(int(rng.integers(0, 3))):
            k = int(rng.integers(1, 4))
            shape2 = None
            if rng.random() < 0.35:          # a rule declared as a matrix
                k = [4, 6][int(rng.integers(2))]
                shape2 = [2, k // 2] if rng.random() < 0.5 else [k // 2, 2]
            mask = (rng.random((k, nz)) < 0.6).astype(int)
            A = np.round(rng.uniform(-2, 2, (k, nz)), 2) * mask
            A = np.where((mask == 1) & (A == 0), 0.5, A)
            rules.append({'n': k, 'mask': mask.tolist(), 'A': A.tolist(),
                          'b': np.round(rng.uniform(-2, 2, k), 2).tolist(),
                          'order': int(rng.integers(3)), 'shape2': shape2})
        spec['rules'] = rules
        spec['late_rvar'] = bool(rng.random() < 0.25)
    else:
        Sn = int(rng.integers(2, 6))
        lk = ['int', 'str', 'custom'][int(rng.integers(3))]
        spec['S'] = Sn
        spec['labels'] = None if lk == 'int' else (['s%c' % (97 + i) for i in range(Sn)]
                                                   if lk == 'str' else [7 * (i + 1) for i in
                                                                        range(Sn)])
        nv = int(rng.integers(1, 4))
        vs = []
        for _ in range(nv):
            nd = int(rng.integers(0, 3))
            shape = [int(rng.integers(1, 4)) for _ in range(nd)]
            part = DR.random_partition(rng, Sn)
            order = list(range(len(part)))
            rng.shuffle(order)
            vals = np.round(rng.uniform(0.3, 3.0, [len(part)] + shape), 3)
            vs.append({'shape': shape, 'partition': part, 'order': order,
                       'values': vals.tolist(),
                       'affine': bool(rng.random() < 0.35),
                       'coef': np.round(rng.uniform(-2, 2, shape), 2).tolist()})
        spec['vars'] = vs
    atoms = []
    for _ in range(int(rng.integers(1, 4))):
        a = CALL_ATOMS[int(rng.integers(len(CALL_ATOMS)))]
        atoms.append({'atom': a, 'mult': float(np.round(rng.uniform(0.3, 3.0), 2)),
                      'neg': bool(rng.random() < 0.4),
                      'off': float(np.round(rng.uniform(-2, 2), 2)),
                      'seed': int(rng.integers(1 << 30))})
    spec['atoms'] = atoms
    return spec


class Q:
    """Collects comparisons."""

    def __init__(self, ctx):
        self.ctx = ctx
        self.bad = []
        self.n = 0
        self.kinds = set()

    def eq(self, kind, got, want, tol=2e-5, shape=True):
        if callable(got):
            try:
                with warnings.catch_warnings():
                    warnings.simplefilter('ignore')
                    got = got()
            except Exception as e:
                self.ctx.count('query_raises:%s:%s' % (kind, type(e).__name__))
                return
        self.n += 1
        self.kinds.add(kind)
        self.ctx.count('queries_compared')
        try:
            g = np.asarray(got, float)
        except Exception:
            self.bad.append({'query': kind, 'problem': 'not numeric', 'got': repr(got)[:80]})
            return
        w = np.asarray(want, float)
        if shape and g.shape != w.shape:
            self.bad.append({'query': kind, 'problem': 'shape', 'got': list(g.shape),
                             'want': list(w.shape)})
            return
        if g.size != w.size:
            self.bad.append({'query': kind, 'problem': 'size', 'got': int(g.size),
                             'want': int(w.size)})
            return
        gn, wn = np.isnan(g.reshape(-1)), np.isnan(w.reshape(-1))
        if not np.array_equal(gn, wn):
            self.bad.append({'query': kind, 'problem': 'NaN pattern', 'got': g.tolist(),
                             'want': w.tolist()})
            return
        if not np.allclose(g.reshape(-1)[~gn], w.reshape(-1)[~wn],
                           rtol=tol, atol=tol * (1 + np.max(np.abs(w[~np.isnan(w)]), initial=0))):
            self.bad.append({'query': kind, 'problem': 'value', 'got': g.tolist(),
                             'want': w.tolist()})

    def raises(self, kind, fn):
        self.n += 1
        try:
            fn()
        except Exception as e:
            self.ctx.count('query_raises:' + kind)
            return True
        return False


def atom_arg(rng, a, base_vals):
    """Affine argument M v + c of an atom built on the flattened pinned values."""
    n = base_vals.size
    m = 1 if AT.ATOMS[a]['kind'] == 'elem' and rng.random() < 0.5 else int(rng.integers(1, 4))
    if AT.ATOMS[a]['kind'] == 'scalar' and m == 1 and a not in ('norm1', 'norminf', 'norm2',
                                                                  'sumsqr'):
        m = 2
    M = np.round(rng.uniform(0.2, 1.5, (m, n)), 2) * (rng.random((m, n)) < 0.7)
    if not M.any():
        M[0, 0] = 1.0
    c = np.round(rng.uniform(0.1, 1.0, m), 2)
    return M, c


def run_case(spec, ctx):
    if spec['front'] == 'ro':
        return run_ro(spec, ctx)
    return run_dro(spec, ctx)


def finish(spec, q, feats, extra_nontrivial=True):
    sig = '|'.join('%s=%s' % (k, feats[k]) for k in sorted(feats))
    if q.bad:
        b = q.bad[0]
        return {'status': 'violation', 'mechanism': 'query:%s:%s' % (b['query'], b['problem']),
                'detail': q.bad[:3], 'features': feats, 'sig': sig, 'nontrivial': True}
    return {'status': 'held', 'features': feats, 'sig': sig,
            'nontrivial': bool(q.n >= 8 and extra_nontrivial),
            'observed': {'queries': q.n, 'kinds': sorted(q.kinds)}}


def run_ro(spec, ctx):
    import rsome as rso
    from rsome import ro
    rng = np.random.default_rng(spec['seed'])
    m = ro.Model()
    shape = tuple(spec['shape'])
    x0 = np.array(spec['x0'], float).reshape(shape)
    x = m.dvar(shape)
    z = m.rvar(tuple(spec['zshape']))
    nz = spec['nz']
    ys = []
    def yel(r, y, i):
        if r.get('shape2'):
            c = r['shape2'][1]
            return y[i // c, i % c]
        return y[i]

    def yshape(r):
        return tuple(r['shape2']) if r.get('shape2') else (r['n'],)

    for r in spec['rules']:
        y = m.ldr(yshape(r)) if r.get('shape2') else m.ldr(r['n'])
        mask = np.array(r['mask'])
        zf = z if len(spec['zshape']) == 1 else None
        for i in range(r['n']):
            for j in range(nz):
                if mask[i, j]:
                    if zf is not None:
                        yel(r, y, i).adapt(z[j])
                    else:
                        yel(r, y, i).adapt(z[j // 2, j % 2])
        ys.append(y)
    w2 = m.rvar(2) if spec['late_rvar'] else None   # declared after adapt(); only used in queries
    zflat = z if len(spec['zshape']) == 1 else z.reshape((nz,))
    uset = (z >= -1, z <= 1)
    # objective: affine in the pinned variables
    w = np.round(rng.uniform(-2, 2, x0.size), 2)
    xf = x.reshape((x0.size,)) if shape != () else x
    obj = (w @ xf if shape != () else w[0] * x) + 1.5
    objval = float(w @ x0.reshape(-1) + 1.5)
    t = m.dvar()
    if spec['sense'] == 'min':
        m.minmax(obj + t, uset)
        m.st(t >= 0.25)
        objval += 0.25
    else:
        m.maxmin(obj - t, uset)
        m.st(t >= 0.25)
        objval -= 0.25
    m.st(x == x0)
    xm = None
    if spec['seed'] % 3 == 0:
        # a variable array with one type per entry ('CIC', 'BCI', ...), pinned to integers at
        # its integer entries and to fractions at its continuous ones: reads return the values
        # of exactly these entries
        mr = np.random.default_rng(spec['seed'] + 5)
        vt = ''.join(mr.choice(list('CCIB'), size=int(mr.integers(2, 5))))
        if 'C' in vt and vt != 'C' * len(vt):
            xm0 = np.array([np.round(mr.uniform(-3, 3), 2) + 0.25 if t_ == 'C' else
                            float(mr.integers(-3, 4)) if t_ == 'I' else float(mr.integers(0, 2))
                            for t_ in vt])
            xm = m.dvar(len(vt), vt)
            m.st(xm == xm0)
    if spec['rules'] and spec['seed'] % 2 == 0:
        # a first solve while the rules are still free, with every kind of read; the reads after
        # the real solve below must not see anything remembered from this one
        try:
            for y in ys:
                m.st(y <= 40.0, y >= -40.0)
            C.solve(m, 'def')
            if C.optimal(m):
                for r, y in zip(spec['rules'], ys):
                    y.get()
                    if np.array(r['mask']).any():
                        y.get(z)
                        y.get(z[0] if len(spec['zshape']) == 1 else z[0, 0])
                    y(z.assign(np.zeros(tuple(spec['zshape']))))
                    y()
                x.get()
                m.get()
                ctx.count('reads_before_resolve')
        except Exception as e:
            ctx.count('presolve_raises:' + type(e).__name__)
    for r, y in zip(spec['rules'], ys):
        A = np.array(r['A'], float)
        b = np.array(r['b'], float)
        rhs = A @ zflat + b
        m.st(y == (rhs.reshape(yshape(r)) if r.get('shape2') else rhs))
    try:
        C.solve(m, 'def')
    except Exception as e:
        ctx.count('rsome_raises:' + type(e).__name__)
        return {'status': 'skip', 'reason': 'rsome raised: %s: %s' % (type(e).__name__,
                                                                      str(e)[:70])}
    if not C.optimal(m):
        st = str(getattr(m.solution, 'status', None))
        if C.definitive_failure('def', st):
            return {'status': 'violation', 'sig': 'pinned-ro', 'nontrivial': True,
                    'mechanism': 'pinned_model_not_solved:ro:%s' % (
                        'late_rvar' if spec['late_rvar'] and spec['rules'] else 'other'),
                    'detail': {'what': 'a model whose variables are pinned to a feasible point is '
                               'reported infeasible/unbounded', 'status': st,
                               'late_rvar': spec['late_rvar'], 'rules': len(spec['rules'])}}
        return {'status': 'skip', 'reason': 'pinned model not solved'}
    q = Q(ctx)
    q.eq('model.get', m.get(), objval)
    q.eq('x.get', x.get(), x0)
    q.eq('x()', x(), x0)
    if xm is not None:
        ctx.count('mixed_type_arrays')
        q.eq('mixed-type x.get', lambda: xm.get(), xm0)
        q.eq('mixed-type x()', lambda: xm(), xm0)
        q.eq('mixed-type slice.get', lambda: xm[1:].get(), xm0[1:])
    if shape != ():
        for _ in range(3):
            idx = tuple(int(rng.integers(0, s)) if rng.random() < 0.5 else
                        slice(int(rng.integers(0, s)), None) for s in shape)
            if len(idx) == 1:
                idx = idx[0]
            want = x0[idx]
            q.eq('slice.get', lambda: x[idx].get(), want)
            q.eq('slice()', lambda: x[idx](), want)
        A2 = np.round(rng.uniform(-2, 2, (2, x0.size)), 2)
        b2 = np.round(rng.uniform(-2, 2, 2), 2)
        q.eq('affine()', (A2 @ xf + b2)(), A2 @ x0.reshape(-1) + b2)
        q.eq('affine_T()', (x.T * 2.0)(), x0.T * 2.0) if len(shape) >= 1 else None
        q.eq('sum()', x.sum()(), x0.sum())
    # convex / concave expression calls
    base = x0.reshape(-1)
    used_atoms = []
    for at in spec['atoms']:
        r2 = np.random.default_rng(at['seed'])
        a = at['atom']
        M, c = atom_arg(r2, a, base)
        u = M @ base + c
        params = AT.random_params(r2, a, len(u))
        if not AT.in_domain(a, u, params):
            continue
        try:
            e = AT.build(a, rso, M @ xf + c if shape != () else M[:, 0] * x + c, params)
            expr = at['mult'] * e
            if at['neg']:
                expr = -expr
            expr = expr + at['off']
            sgn = -1 if at['neg'] else 1
            want = sgn * at['mult'] * np.asarray(AT.value(a, u, params), float) + at['off']
            got = expr()
            first = np.array(got, dtype=float, copy=True)
            got2 = expr()                      # a query must not change what the next one returns
            got3 = expr()
        except Exception as ex:
            ctx.count('convex_call_raises:%s:%s' % (a, type(ex).__name__))
            continue
        used_atoms.append(a)
        q.eq('convex():' + a, first, want, shape=False)
        q.eq('convex() third call:' + a, got3, want, shape=False)
        q.eq('convex() value returned earlier:' + a, got, want, shape=False)
    # rules
    for r, y in zip(spec['rules'], ys):
        A = np.array(r['A'], float)
        b = np.array(r['b'], float)
        mask = np.array(r['mask'])
        ysh = yshape(r)
        tag = '2d' if r.get('shape2') else ''
        q.eq('ldr%s.get' % tag, y.get(), b.reshape(ysh))
        wantA = np.where(mask == 1, A, np.nan).reshape(ysh + tuple(spec['zshape']))
        if mask.any():
            q.eq('ldr%s.get(z)' % tag, lambda: y.get(z), wantA)
            j = int(rng.integers(nz))
            zj = z[j] if len(spec['zshape']) == 1 else z[j // 2, j % 2]
            q.eq('ldr%s.get(z[j])' % tag, lambda: y.get(zj),
                 np.where(mask[:, j] == 1, A[:, j], np.nan).reshape(ysh), shape=False)
        if mask.any() and len(spec['zshape']) == 1 and nz >= 2:
            # slices of the random variable in any order (reversed, permuted, strided)
            q.eq('ldr%s.get(z[::-1])' % tag, lambda: y.get(z[::-1]), wantA[..., ::-1])
            perm = [int(k_) for k_ in rng.permutation(nz)][:max(2, nz - 1)]
            q.eq('ldr%s.get(z[perm])' % tag, lambda: y.get(z[perm]), wantA[..., perm])
            q.eq('ldr%s.get(z[1:])' % tag, lambda: y.get(z[1:]), wantA[..., 1:])
        elif mask.any() and len(spec['zshape']) == 2:
            W2 = wantA.reshape(ysh + tuple(spec['zshape']))
            q.eq('ldr%s.get(z[:, ::-1])' % tag, lambda: y.get(z[:, ::-1]), W2[..., :, ::-1])
            q.eq('ldr%s.get(z[::-1])' % tag, lambda: y.get(z[::-1]), W2[..., ::-1, :])
        v = np.round(rng.uniform(-1, 1, tuple(spec['zshape'])), 2)
        q.eq('ldr%s(z.assign)' % tag, lambda: y(z.assign(v)), (A @ v.reshape(-1) + b).reshape(ysh))
        q.eq('ldr%s()' % tag, lambda: y(), b.reshape(ysh))
        i = int(rng.integers(r['n']))
        q.eq('ldr%s[i](z.assign)' % tag, lambda: yel(r, y, i)(z.assign(v)),
             (A @ v.reshape(-1) + b)[i], shape=False)
        if r.get('shape2'):
            q.eq('ldr2d.T(z.assign)', lambda: y.T(z.assign(v)),
                 (A @ v.reshape(-1) + b).reshape(ysh).T)
            q.eq('ldr2d[row](z.assign)', lambda: y[1](z.assign(v)),
                 (A @ v.reshape(-1) + b).reshape(ysh)[1])
            q.eq('ldr2d.sum(axis=0)(z.assign)', lambda: y.sum(axis=0)(z.assign(v)),
                 (A @ v.reshape(-1) + b).reshape(ysh).sum(axis=0))
        # bi-affine expression with the rule and static variables
        e = 2.0 * y.sum() + (w[0] * (xf[0] if shape != () else x)) * zflat[0] + 1.0
        want = 2.0 * (A @ v.reshape(-1) + b).sum() + w[0] * base[0] * v.reshape(-1)[0] + 1.0
        q.eq('biaffine(z.assign)', lambda: e(z.assign(v)), want, shape=False)
        want0 = 2.0 * b.sum() + 1.0
        q.eq('biaffine()', lambda: e(), want0, shape=False)
    if not spec['rules']:
        v = np.round(rng.uniform(-1, 1, tuple(spec['zshape'])), 2)
        e = (w[0] * (xf[0] if shape != () else x)) * zflat[0] + zflat.sum() + 1.0
        want = w[0] * base[0] * v.reshape(-1)[0] + v.sum() + 1.0
        q.eq('biaffine(z.assign)', lambda: e(z.assign(v)), want, shape=False)
        q.eq('biaffine()', lambda: e(), 1.0, shape=False)
    # random bi-affine expressions: any mix of decision-only, additive random, product and
    # constant terms, evaluated with every subset of the random variables assigned
    fam = set()
    for _ in range(4):
        terms = [t for t in ('dec', 'addz', 'addw', 'prod', 'const') if rng.random() < 0.55]
        if w2 is None and 'addw' in terms:
            terms.remove('addw')
        if not ({'addz', 'addw', 'prod'} & set(terms)):
            terms.append('addz')
        if not ({'dec', 'prod'} & set(terms)):
            terms.append('dec')      # an expression of random variables alone cannot be called
        vz = np.round(rng.uniform(-1, 1, tuple(spec['zshape'])), 2)
        vw = np.round(rng.uniform(-1, 1, 2), 2)
        cd = np.round(rng.uniform(-2, 2, x0.size), 2)
        dz = np.round(rng.uniform(-2, 2, nz), 2)
        gw = np.round(rng.uniform(-2, 2, 2), 2)
        k0 = float(np.round(rng.uniform(-2, 2), 2))
        i0, j0 = int(rng.integers(x0.size)), int(rng.integers(nz))
        order = list(terms)
        rng.shuffle(order)
        e = None
        for tname in order:
            if tname == 'dec':
                part = cd @ xf if shape != () else cd[0] * x
            elif tname == 'addz':
                part = dz @ zflat
            elif tname == 'addw':
                part = gw @ w2
            elif tname == 'prod':
                part = (1.5 * (xf[i0] if shape != () else x)) * zflat[j0]
            else:
                part = k0
            e = part if e is None else e + part

        def val(az, aw):
            tot = 0.0
            zz = vz.reshape(-1) if az else np.zeros(nz)
            ww = vw if aw else np.zeros(2)
            if 'dec' in terms:
                tot += cd @ base if shape != () else cd[0] * base[0]
            if 'addz' in terms:
                tot += dz @ zz
            if 'addw' in terms:
                tot += gw @ ww
            if 'prod' in terms:
                tot += 1.5 * base[i0 if shape != () else 0] * zz[j0]
            if 'const' in terms:
                tot += k0
            return tot
        fam.add('+'.join(sorted(terms)))
        q.eq('robiaffine(z)', lambda: e(z.assign(vz)), val(True, False), shape=False)
        q.eq('robiaffine()', lambda: e(), val(False, False), shape=False)
        if w2 is not None:
            q.eq('robiaffine(z,w)', lambda: e(z.assign(vz), w2.assign(vw)), val(True, True),
                 shape=False)
            q.eq('robiaffine(w)', lambda: e(w2.assign(vw)), val(False, True), shape=False)
        # vector-valued additive form
        if shape != () and len(shape) == 1 and len(spec['zshape']) == 1 and nz == x0.size:
            q.eq('(x+z)(z)', lambda: (x + 2.0 * z - 1.0)(z.assign(vz)), x0 + 2.0 * vz - 1.0)
    feats = {'front': 'ro', 'ndim': len(shape), 'rules': len(spec['rules']),
             'zshape': len(spec['zshape']), 'late_rvar': spec['late_rvar'],
             'robiaffine': sorted(fam),
             'atoms': sorted(set(used_atoms)), 'sense': spec['sense'],
             'rule2d': sorted({str(r.get('shape2')) for r in spec['rules'] if r.get('shape2')}),
             'masks': sorted({'full' if np.array(r['mask']).all() else 'none'
                              if not np.array(r['mask']).any() else 'partial'
                              for r in spec['rules']})}
    return finish(spec, q, feats)


def run_dro(spec, ctx):
    import rsome as rso
    from rsome import dro
    rng = np.random.default_rng(spec['seed'])
    Sn = spec['S']
    labels = spec['labels']
    m = dro.Model(Sn if labels is None else labels)
    vs = spec['vars']
    nv = len(vs)
    # random variables: z[j] identifies the event of variable j; z[nv] is a free component
    z = m.rvar(nv + 1)
    xs = [m.dvar(tuple(v['shape'])) for v in vs]
    # a second block of random variables: affine variables with an odd seed also adapt to u[1],
    # so that a query names fewer components than the variable depends on
    two = [bool(v['affine'] and (spec['seed'] + j) % 2) for j, v in enumerate(vs)]
    u = m.rvar(2) if any(two) else None
    fset = m.ambiguity()
    zval = np.zeros((Sn, nv))
    for j, v in enumerate(vs):
        for e, blk in enumerate(v['partition']):
            for s in blk:
                zval[s, j] = e
    # the free component lives left or right of 0.5 depending on the event of variable 0, so
    # that the optimal rule of the 'switch' variable below has a different slope per event
    part0 = vs[0]['partition']
    side = [1 if (DR.event_of(part0, s) % 2 == 0) else -1 for s in range(Sn)]
    for s in range(Sn):
        flo, fhi = (0.6, 1.0) if side[s] > 0 else (0.0, 0.4)
        lo = np.concatenate([zval[s], [flo]])
        hi = np.concatenate([zval[s], [fhi]])
        sel = (fset[s] if labels is None else fset.loc[labels[s]])
        if u is None:
            sel.suppset(z >= lo, z <= hi)
        else:
            sel.suppset(z >= lo, z <= hi, u >= 0, u <= 1)
        sel.exptset(rso.E(z)[nv:] == np.array([(flo + fhi) / 2]))
    fset.probset(m.p == np.full(Sn, 1.0 / Sn))
    for v, x in zip(vs, xs):
        part = v['partition']
        for bi in v['order'][:-1] if len(part) > 1 else []:
            blk = part[bi]
            lab = blk if labels is None else [labels[i] for i in blk]
            x.adapt(lab if len(lab) > 1 or rng.random() < 0.5 else lab[0])
        if v['affine']:
            x.adapt(z[nv])
    for j, x in enumerate(xs):
        if two[j]:
            x.adapt(u[1])
    t = m.dvar()
    # switch variable: event-wise (partition of variable 0) and affine in the free component;
    # xa >= |z_f - 0.5| with E[z_f | s] known  ->  unique optimal rule  side*(z_f - 0.5)
    xa = m.dvar()
    for bi in vs[0]['order'][:-1] if len(part0) > 1 else []:
        blk = part0[bi]
        lab = blk if labels is None else [labels[i] for i in blk]
        xa.adapt(lab if len(lab) > 1 else lab[0])
    xa.adapt(z[nv])
    m.st(xa >= z[nv] - 0.5, xa >= 0.5 - z[nv])
    if spec['sense'] == 'min':
        m.minsup(rso.E(t + xa), fset)
        m.st(t >= 0.75)
    else:
        m.maxinf(rso.E(t - xa), fset)
        m.st(t <= 0.75)
    exa = np.mean([0.3 for s in range(Sn)])        # E|z_f - 0.5| = 0.3 in every scenario
    objval = 0.75 + exa if spec['sense'] == 'min' else 0.75 - exa
    # pin: x_j == sum_e values[e] * L_e(z[j]) is not affine; use the event index directly:
    # values are made affine in the event index by construction below
    vals = []
    for j, (v, x) in enumerate(zip(vs, xs)):
        shape = tuple(v['shape'])
        V = np.array(v['values'], float)           # (events,)+shape
        ne = len(v['partition'])
        base = V[0]
        step = (V[1] - V[0]) if ne > 1 else np.zeros(shape)
        V = np.array([base + e * step for e in range(ne)])     # affine in the event index
        coef = np.array(v['coef'], float).reshape(shape) if v['affine'] else np.zeros(shape)
        vals.append((V, coef))
        rhs = step * z[j] + base if np.any(step) else base
        if v['affine']:
            rhs = rhs + coef * z[nv]
        if two[j]:
            rhs = rhs + (0.5 * coef + 1.0) * u[1]
        m.st(x == rhs)
    try:
        C.solve(m, 'def')
    except Exception as e:
        ctx.count('rsome_raises:' + type(e).__name__)
        return {'status': 'skip', 'reason': 'rsome raised: %s: %s' % (type(e).__name__,
                                                                      str(e)[:70])}
    if not C.optimal(m):
        return {'status': 'skip', 'reason': 'pinned model not solved'}
    q = Q(ctx)
    q.eq('model.get', m.get(), objval)
    index = list(range(Sn)) if labels is None else labels
    distinct = True
    used_atoms = []
    for j, (v, x) in enumerate(zip(vs, xs)):
        V, coef = vals[j]
        part = v['partition']
        shape = tuple(v['shape'])
        ne = len(part)
        if ne > 1 and not np.any(V[1] - V[0]):
            distinct = False
        g = x.get()
        if ne > 1:
            if not isinstance(g, pd.Series):
                q.bad.append({'query': 'dro x.get', 'problem': 'not a Series for an event-wise '
                              'variable', 'got': type(g).__name__})
                continue
            if list(g.index) != list(index):
                q.bad.append({'query': 'dro x.get', 'problem': 'labels', 'got': list(g.index),
                              'want': list(index)})
                continue
            for s in range(Sn):
                q.eq('dro x.get[label]', g.loc[index[s]], V[DR.event_of(part, s)])
        else:
            q.eq('dro x.get', g, V[0])
        # x() : value of the affine rule at z = 0 unless assigned
        zz = np.round(rng.uniform(0, 1), 2)
        assign = z.assign(np.concatenate([np.zeros(nv), [zz]]))
        c0 = x()
        c1 = x(assign)
        for s in range(Sn):
            e = DR.event_of(part, s)
            w0 = V[e]
            w1 = V[e] + coef * zz
            if ne > 1:
                q.eq('dro x()[label]', c0.loc[index[s]] if isinstance(c0, pd.Series) else c0, w0)
                q.eq('dro x(assign)[label]',
                     c1.loc[index[s]] if isinstance(c1, pd.Series) else c1, w1)
            else:
                q.eq('dro x()', c0, w0)
                q.eq('dro x(assign)', c1, w1)
        # one realisation per scenario (assign(..., sw=True)): scenario s is evaluated with its
        # own rule at its own realisation
        Zsw = np.zeros((Sn, nv + 1))
        Zsw[:, nv] = np.round(rng.uniform(0, 1, Sn), 2)
        try:
            c2 = x(z.assign(Zsw, sw=True))
            for s in range(Sn):
                e = DR.event_of(part, s)
                got = c2.loc[index[s]] if isinstance(c2, pd.Series) else c2
                q.eq('dro x(assign sw)[label]', got, V[e] + coef * Zsw[s, nv])
            e3 = 3.0 * x - 1.0
            c3 = e3(z.assign(Zsw, sw=True))
            for s in range(Sn):
                e = DR.event_of(part, s)
                got = c3.loc[index[s]] if isinstance(c3, pd.Series) else c3
                q.eq('dro affine(assign sw)[label]', got, 3.0 * (V[e] + coef * Zsw[s, nv]) - 1.0)
        except Exception as exn:
            ctx.count('query_raises:dro assign sw:' + type(exn).__name__)
        if not v['affine']:
            eb = (x * z[nv]).sum() + 1.0 if shape != () else x * z[nv] + 1.0
            try:
                rb = eb(assign)
                for s in range(Sn):
                    e = DR.event_of(part, s)
                    gg = rb.loc[index[s]] if isinstance(rb, pd.Series) else rb
                    q.eq('dro biaffine(assign)', gg, float(np.sum(V[e]) * zz + 1.0), shape=False)
            except Exception as exn:
                ctx.count('query_raises:dro biaffine:' + type(exn).__name__)
        if v['affine']:
            gz = x.get(z)
            for s in range(Sn):
                e = DR.event_of(part, s)
                want = np.full(shape + (nv + 1,), np.nan)
                want[..., nv] = coef
                got = gz.loc[index[s]] if isinstance(gz, pd.Series) else gz
                q.eq('dro x.get(z)[label]', got, want)
            gzs = x.get(z[nv])
            for s in range(Sn):
                got = gzs.loc[index[s]] if isinstance(gzs, pd.Series) else gzs
                q.eq('dro x.get(z[k])[label]', np.asarray(got, float).reshape(shape), coef,
                     shape=False)
            if two[j]:
                gu = x.get(u)
                for s in range(Sn):
                    want = np.full(shape + (2,), np.nan)
                    want[..., 1] = 0.5 * coef + 1.0
                    got = gu.loc[index[s]] if isinstance(gu, pd.Series) else gu
                    q.eq('dro x.get(u)[label]', got, want)
        if shape != ():
            i0 = int(rng.integers(shape[0]))
            gs = x[i0].get() if False else None
            e2 = (2.0 * x + 1.0)
            r2 = e2()
            for s in range(Sn):
                e = DR.event_of(part, s)
                q.eq('dro affine()[label]', r2.loc[index[s]] if isinstance(r2, pd.Series) else r2,
                     2.0 * V[e] + 1.0)
        # convex call on a static variable
        if not v['affine'] and shape != () and len(shape) == 1:
            for at in spec['atoms'][:2]:
                a = at['atom']
                if a in ('expsum', 'logsum', 'power'):
                    continue
                r3 = np.random.default_rng(at['seed'])
                params = AT.random_params(r3, a, shape[0])
                if not all(AT.in_domain(a, V[e], params) and np.all(V[e] > 0.05)
                           for e in range(ne)):
                    continue
                try:
                    ex = at['mult'] * AT.build(a, rso, x, params) + at['off']
                    got = ex()
                except Exception as exn:
                    ctx.count('dro_convex_call_raises:%s:%s' % (a, type(exn).__name__))
                    continue
                used_atoms.append(a)
                for s in range(Sn):
                    e = DR.event_of(part, s)
                    want = at['mult'] * np.asarray(AT.value(a, V[e], params), float) + at['off']
                    gg = got.loc[index[s]] if isinstance(got, pd.Series) else got
                    q.eq('dro convex():' + a, gg, want, shape=False)
    # the switch variable: constant and slope per scenario label
    ga, gz = xa.get(), xa.get(z)
    for s in range(Sn):
        want0 = -0.5 * side[s]
        wantz = np.full(nv + 1, np.nan)
        wantz[nv] = float(side[s])
        g0 = ga.loc[index[s]] if isinstance(ga, pd.Series) else ga
        g1 = gz.loc[index[s]] if isinstance(gz, pd.Series) else gz
        q.eq('dro switch.get[label]', g0, want0, shape=False)
        q.eq('dro switch.get(z)[label]', np.asarray(g1, float).reshape(-1), wantz)
    zq = 0.2
    ca = xa(z.assign(np.concatenate([np.zeros(nv), [zq]])))
    for s in range(Sn):
        cc = ca.loc[index[s]] if isinstance(ca, pd.Series) else ca
        q.eq('dro switch(assign)[label]', cc, side[s] * (zq - 0.5), shape=False)
    Zsw = np.zeros((Sn, nv + 1))
    Zsw[:, nv] = np.round(rng.uniform(0, 1, Sn), 2)
    try:
        cs = xa(z.assign(Zsw, sw=True))
        for s in range(Sn):
            cc = cs.loc[index[s]] if isinstance(cs, pd.Series) else cs
            q.eq('dro switch(assign sw)[label]', cc, side[s] * (Zsw[s, nv] - 0.5), shape=False)
    except Exception as exn:
        ctx.count('query_raises:dro switch assign sw:' + type(exn).__name__)
    feats = {'front': 'dro', 'S': Sn, 'labels': 'int' if labels is None else
             type(labels[0]).__name__,
             'partitions': sorted({len(v['partition']) for v in vs}),
             'noncontiguous': any(any(b != list(range(b[0], b[-1] + 1)) for b in v['partition'])
                                  for v in vs),
             'order_natural': all(v['order'] == sorted(v['order']) for v in vs),
             'affine': sorted({v['affine'] for v in vs}), 'ndims': sorted({len(v['shape'])
                                                                           for v in vs}),
             'atoms': sorted(set(used_atoms)), 'sense': spec['sense']}
    return finish(spec, q, feats, extra_nontrivial=distinct)
