"""C11 - all solver interfaces solve the same program and agree.

Differential monitor: one compiled program is handed to every installed
interface that supports its cones (SciPy/HiGHS default, lpg_solver, OR-Tools,
Gurobi, ECOS); their optimal values must agree pairwise and every returned
vector is audited in NumPy against the compiled program (bounds incl. user
bounds on binaries, row senses, cone memberships, integrality, obj.x == objval).
On infeasible/unbounded instances no interface may hand out numbers."""
import numpy as np

from rv import source as SRC
from rv import common as C
from rv import detmodel as D

N_CASES = {'quick': 3200, 'thorough': 60000}
CASE_TIMEOUT = 300
TIMEOUT = {'quick': 1500, 'thorough': 6 * 3600}
ANCHORS = ['lp:def_sol', 'ort_solver:solve', 'grb_solver:solve', 'eco_solver:solve',
           'ro:Model.get', 'dro:Model.get', 'lp:Vars.get']
FLOORS = {'judged': {'quick': 2500, 'thorough': 45000}, 'nontrivial': 150,
          'counters': {'solutions_audited': 4000, 'failure_instances': 300}}
RULE = ('compiled programs from: LPs/MILPs with every bound pattern (free, >=0, <=0, lower, '
        'upper, both, fixed) and user bounds on binaries/integers, empty rows; box-bounded '
        'SOC/exp-cone models over all atoms; robust counterparts of random ro models; plus '
        'infeasible and unbounded instances by construction. Each program goes to every '
        'interface supporting its cones. Non-trivial: >= 2 interfaces returned optimal (or, '
        'for failure instances, >= 2 interfaces judged); distinct by (class, cone class, '
        'bound patterns, outcome, interfaces)')
ASSUMPTIONS = ['an optimum on which two independent solvers agree is the optimum',
               'ECOS exit flag 10 (close to optimal) / numerical problems are not judged']


CRASH_IS_VIOLATION = True     # a solver interface that takes the process down (see runner)


def gen_case(rng, idx, tier):
    r = rng.random()
    if r < 0.25:
        out = ('infeasible', 'unbounded')
        return SRC.gen(rng, tier, kinds=['lp', 'milp'], outcomes=out)
    if r < 0.262:
        return SRC.gen(rng, tier, kinds=['msplit'])
    if r < 0.33:
        return SRC.gen(rng, tier, kinds=['bknap'])
    return SRC.gen(rng, tier)


def run_case(spec, ctx):
    import traceback
    import os
    from rv import rawsolve
    src = spec
    try:
        B = SRC.build(src)
        f = B.model.do_math()
    except Exception as e:
        ctx.count('rsome_raises_build:' + type(e).__name__)
        return {'status': 'skip', 'reason': 'rsome raised at build: %s' % type(e).__name__}
    cls = C.cone_class(f)
    names = C.solvers_for(f)
    if src['kind'] in ('msplit', 'bknap'):
        # the only integer programs that also go to ECOS' branch and bound (attributed through
        # the direct call like every other discrepancy)
        names = ['def', 'ort', 'grb', 'eco'] if cls in ('L', 'LI') else ['grb', 'eco']
    outcome = src['spec'].get('outcome', 'optimal')
    sols = {}
    detail = []
    if 'grb' in names and 'I' in cls and src['spec'].get('spell', 0) % 6 == 0:
        # a solve with search-limiting parameters first: they belong to that call only and must
        # not influence the solves that follow (in this case or in later ones)
        try:
            from rsome import grb_solver as _g
            import warnings as _w
            with _w.catch_warnings():
                _w.simplefilter('ignore')
                _g.solve(f, display=False, params={'SolutionLimit': 1, 'MIPGap': 0.5,
                                                   'TimeLimit': 30, 'Threads': 1})
            ctx.count('limited_param_solves')
        except Exception:
            pass
    for s in names:
        try:
            sol = C.solve_formula(f, s)
        except Exception as e:
            if 'license' in str(e):
                ctx.count('gurobi_size_limit')
                continue
            tb = traceback.extract_tb(e.__traceback__)
            inner = tb[-1].filename if tb else ''
            in_rsome = os.sep + 'rsome' + os.sep in inner and 'site-packages' not in inner
            sols[s] = ('raised', type(e).__name__ + ': ' + str(e)[:60], in_rsome)
            continue
        if sol is None:
            sols[s] = ('none', None)
            continue
        ok = sol.x is not None and not np.isnan(sol.objval)
        if s == 'eco' and ok and 'Optimal' not in str(sol.status) and 'I' not in cls:
            ctx.count('ecos_inaccurate_status')
            continue
        if s == 'eco' and not ok and 'infeasible' not in str(sol.status).lower() \
                and 'unbounded' not in str(sol.status).lower():
            ctx.count('ecos_numerical')
            continue
        sols[s] = ('optimal' if ok else 'failed', sol)
    feats = {'class': src['kind'], 'cone': cls, 'outcome': outcome,
             'interfaces': sorted(sols), 'results': sorted({v[0] for v in sols.values()})}
    if src['kind'] in ('lp', 'milp'):
        feats['patterns'] = sorted({b.get('pattern', 'box') for b in src['spec']['bounds']})
        feats['empty_rows'] = len(src['spec'].get('empty_rows', []))
    sig = '|'.join('%s=%s' % (k, feats[k]) for k in sorted(feats))
    opt = {s: v[1] for s, v in sols.items() if v[0] == 'optimal'}
    failed = [s for s, v in sols.items() if v[0] in ('failed', 'none')]
    tol = 1e-6 if cls in ('L', 'LI') else 5e-5
    raw_cache = {}

    def raw(s):
        key = 'def' if s == 'lpg' else s
        if key not in raw_cache:
            try:
                raw_cache[key] = rawsolve.RAW[key](f)
            except Exception as e:
                raw_cache[key] = ('failed', None, str(e)[:60])
            ctx.count('raw_calls')
        return raw_cache[key]

    # (b) audit every returned vector against the compiled program
    for s, sol in opt.items():
        ctx.count('solutions_audited')
        bad = C.audit_solution(f, sol.x, sol.objval,
                               tol=5e-6 if (s != 'eco' and cls in ('L', 'LI')) else 5e-5)
        if bad:
            # attribute: does the same solver, called directly on the same arrays, return a
            # vector with the same defect?  (observed: Gurobi's barrier leaves 1.6e-4 on an
            # equality row of a conic program - the solver's accuracy, not the interface's)
            r = raw(s)
            if r[0] == 'optimal' and r[2] is not None and not isinstance(r[2], str):
                rbad = C.audit_solution(f, np.asarray(r[2], float)[:f.linear.shape[1]], r[1],
                                        tol=5e-6 if (s != 'eco' and cls in ('L', 'LI')) else 5e-5)
                kinds_i = {b_[0] for b_ in bad}
                kinds_r = {b_[0] for b_ in rbad}
                worst_i = max(b_[1] for b_ in bad)
                worst_r = max([b_[1] for b_ in rbad] or [0.0])
                if kinds_i <= kinds_r and worst_r >= 0.2 * worst_i:
                    ctx.count('solver_level_inaccuracy:' + s)
                    continue
            if s == 'grb' and 'Q' in cls:
                # Gurobi's default barrier tolerance for QCPs stops early on some formulations
                # (here: 1e-4 off the optimum and on an equality row); the same interface with a
                # tight tolerance must then return a clean vector
                try:
                    from rsome import grb_solver
                    import warnings as _w
                    with _w.catch_warnings():
                        _w.simplefilter('ignore')
                        t2 = grb_solver.solve(f, display=False,
                                              params={'BarQCPConvTol': 1e-10, 'TimeLimit': 30,
                                                      'Threads': 1})
                    if t2.x is not None and not C.audit_solution(f, t2.x, t2.objval, tol=5e-5):
                        ctx.count('gurobi_qcp_tolerance_artifact')
                        continue
                except Exception:
                    pass
            detail.append({'what': 'returned vector violates the compiled program',
                           'solver': s, 'audit': bad[:4]})
    # failure objects carry no numbers
    for s in failed:
        sol = sols[s][1]
        if sol is not None and (sol.x is not None or not np.isnan(sol.objval)):
            detail.append({'what': 'failed solve returns numbers', 'solver': s})
    # display / log settings must not change what is returned
    if opt and (src['spec'].get('spell', 0) % 25 == 0):
        s0 = sorted(opt)[src['spec'].get('spell', 0) % len(opt)]
        try:
            from rsome import lp as _lp
            import warnings as _w
            with _w.catch_warnings():
                _w.simplefilter('ignore')
                # same solver parameters as the quiet solve (C.solve_formula gives these to Gurobi)
                kw2 = {'params': {'TimeLimit': 30, 'Threads': 1}} if s0 == 'grb' else {}
                sol2 = (_lp.def_sol(f, display=True, log=True) if s0 == 'def' else
                        C.solver(s0).solve(f, display=True, log=True, **kw2))
            ctx.count('display_log_variants')
            if sol2.x is None or abs(sol2.objval - opt[s0].objval) > 1e-9 * (1 + abs(opt[s0].objval)):
                detail.append({'what': 'display/log settings change the result', 'solver': s0,
                               'quiet': float(opt[s0].objval),
                               'verbose': None if sol2.x is None else float(sol2.objval)})
        except Exception as e:
            detail.append({'what': 'display/log settings make the interface raise', 'solver': s0,
                           'error': '%s: %s' % (type(e).__name__, str(e)[:80])})
    agree = None
    if outcome == 'optimal':
        vals = {s: float(sol.objval) for s, sol in opt.items()}
        spread = (max(vals.values()) - min(vals.values())) if vals else 0.0
        lim = 10 * tol * (1 + max([abs(v) for v in vals.values()] or [0]))
        agree = spread <= lim
        suspicious = (not agree) or (opt and failed) or any(v[0] == 'raised'
                                                            for v in sols.values())
        if suspicious:
            # attribute: interface layer (RSOME) versus the solver itself
            for s, v in sols.items():
                r = raw(s)
                if v[0] == 'optimal':
                    if r[0] == 'optimal' and abs(r[1] - v[1].objval) > lim + 10 * tol * abs(r[1]):
                        if s == 'grb' and 'Q' in cls:
                            # Gurobi's default barrier tolerance for QCPs can stop early on one
                            # formulation of a program and not on another: retry tightened
                            try:
                                from rsome import grb_solver
                                import warnings as _w
                                with _w.catch_warnings():
                                    _w.simplefilter('ignore')
                                    t2 = grb_solver.solve(f, display=False,
                                                          params={'BarQCPConvTol': 1e-10, 'TimeLimit': 30, 'Threads': 1})
                                if t2.x is not None and abs(t2.objval - r[1]) <= lim + 10 * tol * abs(r[1]):
                                    ctx.count('gurobi_qcp_tolerance_artifact')
                                    continue
                            except Exception:
                                pass
                        detail.append({'what': 'interface optimum differs from the same solver '
                                       'called directly', 'solver': s,
                                       'interface': float(v[1].objval), 'direct': r[1]})
                    elif r[0] in ('infeasible', 'unbounded'):
                        detail.append({'what': 'interface reports an optimum, the same solver '
                                       'called directly reports ' + r[0], 'solver': s,
                                       'interface': float(v[1].objval)})
                elif v[0] in ('failed', 'none'):
                    if r[0] == 'optimal':
                        detail.append({'what': 'interface fails, the same solver called '
                                       'directly solves', 'solver': s, 'direct': r[1],
                                       'status': str(v[1].status) if v[1] is not None else None})
                    else:
                        ctx.count('solver_level_failure:' + s)
                elif v[0] == 'raised':
                    if v[2] and r[0] == 'optimal':
                        detail.append({'what': 'interface raises in RSOME code, the solver '
                                       'called directly solves', 'solver': s, 'error': v[1]})
                    else:
                        ctx.count('solver_library_raised:' + s)
            if not agree and not detail:
                ctx.count('solver_level_disagreement')
    else:
        ctx.count('failure_instances')
        # (c) no numbers for an instance that has no optimum by construction
        for s, sol in opt.items():
            r = raw(s)
            if r[0] == 'optimal':
                # the solver itself claims an optimum when called directly: not the interface
                ctx.count('solver_level_optimum_on_%s:%s' % (outcome, s))
                continue
            detail.append({'what': 'optimum reported for an instance that is %s by construction'
                           % outcome, 'solver': s, 'objval': float(sol.objval),
                           'x': np.asarray(sol.x)[:8].tolist(), 'direct_call': r[0]})
        # model-level accessors must raise
        try:
            sname = failed[0] if failed else None
            if sname:
                C.solve(B.model, sname)
                for probe, fn in (('model.get', B.model.get), ('x.get', B.xs[0].get)):
                    try:
                        v = fn()
                        detail.append({'what': '%s returned %r on a failed model' % (probe, v),
                                       'solver': sname})
                    except RuntimeError:
                        ctx.count('failed_model_get_raises')
                    except Exception as e:
                        ctx.count('failed_model_get_raises_other:' + type(e).__name__)
        except Exception as e:
            ctx.count('model_level_probe_error:' + type(e).__name__)
    if detail:
        return {'status': 'violation', 'mechanism': classify(src, detail, cls), 'detail': detail[:4],
                'features': feats, 'sig': sig, 'nontrivial': True}
    nontriv = (len(opt) >= 2 and bool(agree)) if outcome == 'optimal' else len(failed) >= 2
    return {'status': 'held' if sols else 'skip', 'reason': 'no interface ran',
            'features': feats, 'sig': sig, 'nontrivial': nontriv,
            'observed': {s: (v[0], float(v[1].objval) if v[0] == 'optimal' else None)
                         for s, v in sols.items()}}


def classify(src, detail, cls):
    d = detail[0]
    w = d['what']
    if w.startswith('returned vector'):
        return 'audit:%s:%s' % (d['solver'], d['audit'][0][0])
    if w.startswith('optimum reported for'):
        tag = 'empty_row' if src['spec'].get('empty_rows') else 'rows'
        return 'fabricated:%s:%s' % (d['solver'], tag)
    if w.startswith('optimal values disagree'):
        return 'disagree:' + cls
    if w.startswith('interface'):
        return 'interface_vs_direct:%s:%s' % (d['solver'], w.split(',')[0][10:30].strip())
    return w[:40]
