"""C19 - formulation is deterministic and leaves user data untouched.

State monitors around real API call sequences:
  * every array handed to RSOME is read-only and digest-checked (dense arrays
    of several dtypes/layouts, strided views, scipy sparse matrices);
  * global RNG states (numpy legacy, random) are probed before/after;
  * the compiled primal and dual are fingerprinted (exact numeric equality,
    -0.0 == 0.0) right after formulation, after repeated do_math, after forming
    the dual, after each solve with each interface and after soc_solve;
  * the same spec built twice in one process, and in two fresh processes with
    different PYTHONHASHSEED, must give identical fingerprints;
  * a repeated solve returns the same optimum."""
import json
import os
import random
import subprocess
import sys

import numpy as np

from rv import source as SRC
from rv import common as C

N_CASES = {'quick': 640, 'thorough': 12000}
TIMEOUT = {'quick': 1500, 'thorough': 6 * 3600}
ANCHORS = ['subroutines:add_linear', 'lp:concat', 'lp:Model.do_math', 'socp:Model.do_math',
           'gcp:Model.do_math', 'lp:def_sol', 'gcp:GCProg.to_socp']
FLOORS = {'judged': {'quick': 450, 'thorough': 9000}, 'nontrivial': 60,
          'counters': {'two_process_pairs': 10, 'arrays_guarded': 2000,
                       'fingerprints_compared': 3000}}
RULE = ('models from the LP/MILP, conic, ro (and dro) generators built with user arrays in five '
        'representations (float64 read-only, strided view, Fortran order, float32/int64 where '
        'exact, scipy sparse); call sequence do_math, do_math, do_math(primal=False), solve with '
        'every supporting interface twice, soc_solve for exp-cone models, do_math again; every '
        '32nd case is also built in two fresh processes with different PYTHONHASHSEED. '
        'Non-trivial: at least one solve reached an optimum and >= 4 fingerprints compared; '
        'distinct by (class, cone, array mode, interfaces)')
ASSUMPTIONS = ['numeric equality after mapping -0.0 to 0.0 is the meaning of "numerically '
               'identical" (see DESIGN.md C19)']

HERE = os.path.dirname(os.path.dirname(os.path.dirname(os.path.abspath(__file__))))


def gen_case(rng, idx, tier):
    kinds = ['lp', 'milp', 'conic', 'conic', 'ro', 'ro']
    if SRC.HAS_DRO:
        kinds += ['dro', 'dro', 'ro_as_dro']
    src = SRC.gen(rng, tier, kinds=kinds)
    src['variant'] = {'arr': [None, 'strided', 'fortran', 'f32', 'int', 'sparse'][
        int(rng.integers(6))]}
    src['two_process'] = (idx % 32 == 0)
    if src['kind'] == 'dro' and rng.random() < 0.5:
        src['variant']['dup_set'] = True
    return src


def rng_states():
    st = np.random.get_state()
    return (st[0], C.digest(st[1]), st[2], st[3], st[4]), hash(random.getstate())


def run_case(spec, ctx):
    src = spec
    detail = []
    rs0 = rng_states()
    try:
        B = SRC.build(src, variant=src['variant'])
        f1 = B.model.do_math()
    except Exception as e:
        if 'read-only' in str(e) or 'WRITEABLE' in str(e):
            return {'status': 'violation', 'mechanism': 'writes_into_user_array',
                    'detail': {'what': 'RSOME wrote into an array supplied by the user',
                               'error': str(e)[:200], 'array_mode': src['variant']['arr']},
                    'sig': 'write', 'nontrivial': True}
        ctx.count('rsome_raises_build:' + type(e).__name__)
        return {'status': 'skip', 'reason': 'rsome raised at build: %s' % type(e).__name__}
    g = C.Guard()
    for i, a in enumerate(B.arrays):
        g.add(a, 'arr%d' % i, readonly=False)
        # digest taken when the array was created, i.e. before RSOME saw it
        g.items[-1] = (g.items[-1][0], a, B.digests[i])
    ctx.count('arrays_guarded', len(B.arrays))
    cls = C.cone_class(f1)
    feats = {'class': src['kind'], 'cone': cls, 'arr': str(src['variant']['arr']),
             'cols': int(f1.linear.shape[1] // 8)}
    fp = C.fingerprint(f1)
    ncmp = 0

    def same(tag, f, ref_fp, ref_f=None):
        nonlocal ncmp
        ncmp += 1
        ctx.count('fingerprints_compared')
        if C.fingerprint(f) != ref_fp:
            detail.append({'what': 'compiled program changed', 'after': tag,
                           'fields': C.formula_diff(f, ref_f) if ref_f is not None else None})
            return False
        return True

    import copy
    f1_copy = copy.deepcopy(f1)
    m = B.model
    try:
        # second build of the same declared model in this process
        B2 = SRC.build(src, variant=src['variant'])
        f2 = B2.model.do_math()
        if C.fingerprint(f2) != fp:
            detail.append({'what': 'two builds of one spec differ',
                           'fields': C.formula_diff(f2, f1_copy)})
        ncmp += 1
        same('do_math() again', m.do_math(), fp, f1_copy)
        fd = None
        try:
            fd = m.do_math(primal=False)
            fdp = C.fingerprint(fd)
            fd_copy = copy.deepcopy(fd)
            same('do_math(primal=False) [primal]', m.do_math(), fp, f1_copy)
            same('do_math(primal=False) again [dual]', m.do_math(primal=False), fdp, fd_copy)
            fd2 = B2.model.do_math(primal=False)
            if C.fingerprint(fd2) != fdp:
                detail.append({'what': 'two builds of one spec differ (dual)',
                               'fields': C.formula_diff(fd2, fd_copy)})
        except Exception as e:
            ctx.count('dual_raises:' + type(e).__name__)
        solved = 0
        used = []
        for s in C.solvers_for(f1):
            vals = []
            for rep in range(2):
                try:
                    C.solve(m, s)
                except Exception as e:
                    if 'license' in str(e):
                        break
                    if 'read-only' in str(e):
                        detail.append({'what': 'RSOME wrote into an array supplied by the user',
                                       'during': 'solve ' + s, 'error': str(e)[:160]})
                    else:
                        ctx.count('solve_raises:%s:%s' % (s, type(e).__name__))
                    break
                if C.optimal(m):
                    vals.append(float(m.get()))
                same('solve(%s) #%d [primal]' % (s, rep + 1), m.do_math(), fp, f1_copy)
                if fd is not None:
                    same('solve(%s) #%d [dual]' % (s, rep + 1), m.do_math(primal=False), fdp,
                         fd_copy)
            if vals:
                used.append(s)
                solved += 1
            if len(vals) == 2 and abs(vals[0] - vals[1]) > 1e-9 * (1 + abs(vals[0])):
                detail.append({'what': 'repeated solve gives a different optimum', 'solver': s,
                               'values': vals})
        if 'X' in cls:
            for s in ('eco',):
                try:
                    import warnings
                    with warnings.catch_warnings():
                        warnings.simplefilter('ignore')
                        m.soc_solve(C.solver(s), display=False)
                    ctx.count('soc_solves')
                    same('soc_solve(%s) [primal]' % s, m.do_math(), fp, f1_copy)
                    C.solve(m, 'eco')
                    same('solve(eco) after soc_solve [primal]', m.do_math(), fp, f1_copy)
                except Exception as e:
                    if 'read-only' in str(e):
                        detail.append({'what': 'RSOME wrote into an array supplied by the user',
                                       'during': 'soc_solve'})
                    else:
                        detail.append({'what': 'solve after soc_solve raises',
                                       'error': '%s: %s' % (type(e).__name__, str(e)[:100])})
        feats['interfaces'] = used
    except Exception as e:
        if 'read-only' in str(e):
            detail.append({'what': 'RSOME wrote into an array supplied by the user',
                           'error': str(e)[:200]})
        else:
            raise
    changed = g.check()
    if changed:
        detail.append({'what': 'user array changed', 'arrays': changed[:5],
                       'array_mode': src['variant']['arr']})
    rs1 = rng_states()
    if rs1 != rs0:
        detail.append({'what': 'global random state consumed',
                       'numpy': rs1[0] != rs0[0], 'random': rs1[1] != rs0[1]})
    if src.get('two_process') and not detail:
        res = two_process(src, ctx)
        if res is not None:
            fps = {json.dumps(r, sort_keys=True) for r in res}
            mine = json.dumps({'primal': fp, 'dual': fdp if fd is not None else None},
                              sort_keys=True)
            if len(fps) > 1:
                detail.append({'what': 'two processes with different hash seeds compile '
                               'different programs', 'results': res})
            elif fd is not None and list(fps)[0] != mine:
                detail.append({'what': 'fresh process compiles a different program than this '
                               'process', 'child': res[0], 'here': json.loads(mine)})
    sig = '|'.join('%s=%s' % (k, feats[k]) for k in sorted(feats))
    if detail:
        return {'status': 'violation', 'mechanism': classify(detail), 'detail': detail[:4],
                'features': feats, 'sig': sig, 'nontrivial': True}
    return {'status': 'held', 'features': feats, 'sig': sig,
            'nontrivial': bool(solved and ncmp >= 4),
            'observed': {'fingerprint': fp[:12], 'compared': ncmp, 'arrays': len(B.arrays)}}


def classify(detail):
    d = detail[0]
    w = d['what']
    if w == 'compiled program changed':
        a = d['after']
        kind = ('soc_solve' if 'soc_solve' in a else 'solve' if a.startswith('solve') else
                'dual' if 'primal=False' in a else 'do_math')
        return 'program_changed_after:%s:%s' % (kind, ','.join(d.get('fields') or []))
    return w


def two_process(src, ctx):
    out = []
    for hs in ('1', '987654'):
        env = dict(os.environ)
        env['PYTHONHASHSEED'] = hs
        try:
            p = subprocess.run([sys.executable, '-m', 'rv.fp_child'], input=json.dumps(src),
                               capture_output=True, text=True, timeout=120, env=env, cwd=HERE)
            line = [ln for ln in p.stdout.split('\n') if ln.startswith('{')]
            if not line:
                ctx.count('two_process_child_failed')
                return None
            out.append(json.loads(line[-1]))
        except Exception:
            ctx.count('two_process_child_failed')
            return None
    ctx.count('two_process_pairs')
    return out
