"""C01 - robust solutions are feasible for every realisation.

Reference-model monitor: after each real ro.Model.solve() the returned
here-and-now values and rule coefficients are substituted into every robust
requirement of the neutral spec and an adversary (LP / ECOS / closed form /
SLSQP on the harness's own description of the set) searches for a realisation
that violates it.  A violation is reported only with a realisation whose
membership in the set was re-verified in NumPy."""
import numpy as np

from rv import romodel as R
from rv import sets as S
from rv import common as C

N_CASES = {'quick': 1920, 'thorough': 20000}
TIMEOUT = {'quick': 1500, 'thorough': 6 * 3600}
ANCHORS = ['lp:RoConstr.le_to_rc', 'lp:RoConstr.forall', 'ro:Model.minmax', 'ro:Model.maxmin',
           'ro:Model.st', 'ro:Model.do_math', 'lp:DecRule.to_affine', 'lp:DecRule.adapt',
           'lp:Affine.__matmul__', 'lp:Model.do_math', 'socp:Model.do_math', 'gcp:Model.do_math']
FLOORS = {'judged': {'quick': 1050, 'thorough': 10000}, 'nontrivial': 60}
RULE = ('random ro models: 1-4 static variables, 0-2 decision rules with random dependency '
        'masks, 1-5 robust rows (<=, >=, ==) incl. bilinear x\'Pz terms, min/max/minmax/maxmin '
        'with maxof/minof pieces, default and per-row sets from {box, 1/2/inf/p-norm, sumsqr, '
        'quad, lifted abs-budget, polytope, KL, entropy} and intersections; solved by '
        'HiGHS/Gurobi/OR-Tools/ECOS by cone class. Non-trivial: optimal and at least one robust '
        'row or the objective is active at its worst case (|slack| <= 1e-4); distinct by '
        '(set kinds, senses, mask class, mode, pieces, solver)')
ASSUMPTIONS = ['solver returns a point feasible for the compiled program within its tolerance',
               'the adversary only affects detection power: every witness is re-verified']


def gen_case(rng, idx, tier):
    if rng.random() < 0.08:
        from rv import matrule
        return matrule.gen(rng, tier)
    return R.gen(rng, tier)


def judge(spec, B, sname, ctx=None):
    """Returns (violations, info) for a solved model."""
    m = B.model
    x, y0, Y = R.read_solution(spec, B)
    val = m.get()
    viols = []
    active = 0
    zc = np.array(spec['dcenter'], float)
    scale = max(1.0, float(np.max(np.abs(x))), *(float(np.max(np.abs(a))) for a in y0 + Y)) \
        if (y0 or Y) else max(1.0, float(np.max(np.abs(x))))
    inexact = 0
    for kind, e, sgn, rhs, prims, n, tag in R.all_rows(spec):
        al, be = R.coeffs(spec, e, x, y0, Y)
        wv, z, exact = R.worst_value(prims, n, al, be, sgn,
                                     z0=zc[:n] if prims is spec['dset'] else None)
        if z is None:
            inexact += 1
            continue
        tol = R.tol_for(sname, abs(rhs) + np.abs(be).sum() * 3 + abs(al))
        exc = wv - sgn * rhs
        if abs(exc) <= 1e-4 and kind == 'row':
            active += 1
        if exc > tol:
            # re-verify the witness from scratch
            if S.set_viol(prims, z) <= 1e-6:
                g = sgn * (al + be[:n] @ z) - sgn * rhs
                if g > tol:
                    viols.append({'what': 'robust row violated', 'row': tag, 'z': z.tolist(),
                                  'excess': float(g), 'tol': float(tol),
                                  'set_viol': float(S.set_viol(prims, z))})
    # robust equalities hold identically
    for k, row in enumerate(spec['rows']):
        prims_k, _n = R.row_set(spec, row)
        # a function vanishing on a full-dimensional set vanishes identically; on a set inside
        # a hyperplane (eq / simplex pieces) only the two worst-case checks above apply
        fulldim = not any(p['t'] in ('eq', 'kl', 'entropy') or
                          (p['t'] == 'box' and np.any(np.array(p['lo']) == np.array(p['hi'])))
                          for p in prims_k)
        if row['sense'] == 'eq' and fulldim:
            al, be = R.coeffs(spec, row['e'], x, y0, Y)
            tol = R.tol_for(sname, scale) * 10
            if np.max(np.abs(be)) > tol or abs(al - row['rhs']) > tol:
                viols.append({'what': 'robust equality not identical in z', 'row': k,
                              'beta': be.tolist(), 'alpha_minus_rhs': float(al - row['rhs'])})
    # objective is a bound on the objective expression
    ow, oz, oexact = R.objective_worst(spec, x, y0, Y)
    osgn = 1 if spec['mode'] in ('min', 'minmax') else -1
    if ow is not None:
        tol = R.tol_for(sname, abs(val) + abs(ow)) * 5
        if osgn * (ow - val) > tol and S.set_viol(spec['dset'], oz) <= 1e-6:
            viols.append({'what': 'reported objective is not a bound on the objective',
                          'reported': float(val), 'worst_case': float(ow), 'z': oz.tolist()})
        if abs(ow - val) <= 1e-4 * (1 + abs(val)):
            active += 1
    return viols, {'active': active, 'value': float(val), 'inexact_oracle': inexact,
                   'x': x.tolist()}


def features(spec, sname):
    kinds = sorted({p['t'] for p in spec['dset']} |
                   {p['t'] for r in spec['rows'] if r.get('set') for p in r['set']})
    masks = []
    for r in spec['rules']:
        mk = np.array(r['mask'])
        masks.append('none' if not mk.any() else 'full' if mk.all() else 'partial')
    return {'set_kinds': kinds, 'senses': sorted({r['sense'] for r in spec['rows']}),
            'masks': masks or ['static'], 'mode': spec['mode'], 'pieces': len(spec['pieces']),
            'solver': sname, 'own_sets': sum(1 for r in spec['rows'] if r.get('set')),
            'nz': spec['nz'], 'lifted': spec['nz'] > spec['nzr']}


def sig_of(f):
    return '|'.join(str(f[k]) for k in ('set_kinds', 'senses', 'masks', 'mode', 'pieces',
                                        'solver', 'own_sets'))


def run_case(spec, ctx):
    if spec.get('kind') == 'matrule':
        from rv import matrule
        return matrule.run(spec, ctx, exact=False)
    rng = np.random.default_rng(spec['spell'])
    try:
        B = R.build(spec)
        formula = B.model.do_math()
    except Exception as e:
        ctx.count('rsome_raises_build:' + type(e).__name__)
        return {'status': 'skip', 'reason': 'rsome raised at build: %s: %s'
                % (type(e).__name__, str(e)[:80])}
    sname = R.pick_solver(formula, rng)
    try:
        try:
            C.solve(B.model, sname)
        except Exception as e:
            if sname == 'grb' and 'license' in str(e):
                ctx.count('gurobi_size_limit')
                sname = 'eco'
                C.solve(B.model, sname)
            else:
                raise
    except Exception as e:
        ctx.count('rsome_raises_solve:' + type(e).__name__)
        return {'status': 'skip', 'reason': 'rsome raised at solve: %s: %s'
                % (type(e).__name__, str(e)[:80])}
    f = features(spec, sname)
    if not C.optimal(B.model):
        ctx.count('not_optimal')
        return {'status': 'skip', 'reason': 'not optimal (%s, status %s)'
                % (sname, getattr(B.model.solution, 'status', None)), 'features': f}
    bad = C.Guard()
    viols, info = judge(spec, B, sname, ctx)
    ctx.count('rows_checked', len(R.all_rows(spec)))
    if viols:
        kinds = f['set_kinds']
        return {'status': 'violation', 'mechanism': classify(spec, viols), 'detail': viols[:3],
                'features': f, 'sig': sig_of(f), 'nontrivial': True, 'observed': info}
    return {'status': 'held', 'features': f, 'sig': sig_of(f),
            'nontrivial': info['active'] > 0, 'observed': info}


def classify(spec, viols):
    """Mechanism key used to match known findings (by structure, not by values)."""
    v = viols[0]
    if v['what'].startswith('robust row'):
        return 'unsafe_row'
    if v['what'].startswith('robust equality'):
        return 'equality_not_identical'
    return 'objective_not_bound'
