"""C06 - every accepted constraint and the objective are enforced as written.

Reference-model monitor for deterministic models: after the real solve() the
returned x.get() values are substituted into every user constraint (bounds,
array-form linear rows, every convex/concave atom with affine argument,
multiplier and affine offset, rotated/exponential/KL cones) evaluated in closed
form by NumPy, and the reported objective is compared with the user's objective
expression evaluated at the same point."""
import numpy as np

from rv import detmodel as D
from rv import atoms as AT
from rv import common as C
from rv import contracts

N_CASES = {'quick': 1920, 'thorough': 16000}
TIMEOUT = {'quick': 1500, 'thorough': 6 * 3600}
ANCHORS = ['lp:Model.st', 'socp:Model.st', 'gcp:Model.st', 'lp:Model.do_math',
           'socp:Model.do_math', 'gcp:Model.do_math', 'lp:Convex.__le__', 'lp:Convex.__ge__',
           'lp:Convex.__mul__', 'lp:Convex.__add__', 'lp:Convex.__neg__', 'lp:IPCone.to_soc',
           'ro:Model.do_math', 'dro:Model.do_math', 'dro:Model.ro_to_roc']
FLOORS = {'judged': {'quick': 1200, 'thorough': 9000}, 'nontrivial': 80}
RULE = ('random deterministic models (ro and dro front ends; C/B/I variables with user bounds '
        'as bound objects or rows; array-form <=,>=,== rows; 1-3 atom constraints '
        'mult*atom(Mx+v)+g.x+k <=/>= 0 in six spellings over all atoms incl. summed exp/log, '
        'rsocone/expcone/kldiv; min/max of affine + atom or maxof/minof pieces). Non-trivial: '
        'optimal and at least one atom/special constraint active (|lhs| <= 1e-4*scale); '
        'distinct by (front, atoms, spellings, vtypes, objective kind, solver)')
ASSUMPTIONS = ['solver feasibility tolerance 1e-6 (LP/MILP) / 1e-5 (conic)']


def setup_worker(ctx):
    contracts.install_helpers(ctx, ['rso_broadcast'])


def gen_case(rng, idx, tier):
    r_ = rng.random()
    if r_ < 0.25:
        from rv import bcast
        return bcast.gen(rng, tier)
    if r_ < 0.33:
        from rv import evpersp
        return evpersp.gen(rng, tier)
    cones = ['L', 'LQ', 'LQX', 'LQX', 'X', 'Q'][int(rng.integers(6))]
    spec = D.gen(rng, tier, cones=cones)
    if rng.random() < 0.15 and spec['front'] == 'ro':
        spec['prelude'] = int(rng.integers(1 << 30))     # see detmodel._build
    return spec


def pick_solver(spec, rng):
    need = D.cone_need(spec)
    ints = any(b['vtype'] != 'C' for b in spec['blocks'])
    r = rng.random()
    if need == 'X':
        return 'eco'
    if need == 'Q':
        if ints:
            return 'grb'
        return 'eco' if r < 0.5 else 'grb'
    if ints:
        return 'def' if r < 0.5 else 'ort' if r < 0.75 else 'grb'
    return 'def' if r < 0.4 else 'ort' if r < 0.6 else 'grb' if r < 0.8 else 'eco'


def feats(spec, sname):
    return {'front': spec['front'], 'atoms': sorted({c['atom'] for c in spec['cvx']}),
            'spell': sorted({c['spell'] for c in spec['cvx']}),
            'special': sorted({s['kind'] for s in spec['special']}),
            'pw': sorted({('maxof' if c['curv'] == 1 else 'minof') +
                          ('+num%d' % min(2, sum(1 for p_ in c['pieces'] if p_.get('numeric'))))
                          for c in spec.get('pw', [])}),
            'vtypes': sorted({b['vtype'] for b in spec['blocks']}),
            'obj': (spec['obj']['sense'] + ('+' + spec['obj']['cvx']['atom']
                                            if spec['obj'].get('cvx') else '') +
                    ('+pw' if spec['obj'].get('pieces') else '')),
            'solver': sname, 'lin': sorted({l['sense'] for l in spec['lin']})}


def run_case(spec, ctx, want_B=False):
    if spec.get('kind') == 'bcast':
        from rv import bcast
        return bcast.run(spec, ctx)
    if spec.get('kind') == 'evpersp':
        from rv import evpersp
        return evpersp.run(spec, ctx)
    rng = np.random.default_rng(spec['spell'])
    sname = pick_solver(spec, rng)
    f = feats(spec, sname)
    sig = '|'.join(str(f[k]) for k in sorted(f))
    try:
        B = D.build(spec)
    except Exception as e:
        ctx.count('rsome_raises_build:' + type(e).__name__)
        return {'status': 'skip', 'reason': 'rsome raised at build: %s: %s'
                % (type(e).__name__, str(e)[:60]), 'features': f}
    try:
        try:
            C.solve(B.model, sname)
        except Exception as e:
            if sname == 'grb' and 'license' in str(e):
                return {'status': 'skip', 'reason': 'gurobi licence size', 'features': f}
            raise
    except Exception as e:
        ctx.count('rsome_raises_solve:' + type(e).__name__)
        return {'status': 'skip', 'reason': 'rsome raised at solve: %s: %s'
                % (type(e).__name__, str(e)[:60]), 'features': f}
    if not C.optimal(B.model):
        ctx.count('not_optimal')
        # feasible (xstar) and bounded (boxes) by construction
        st = str(getattr(B.model.solution, 'status', None))
        xs = np.array(spec['xstar'], float)
        boxed = all(np.isfinite(b['lo']) and np.isfinite(b['hi']) for b in spec['bounds'])
        if C.definitive_failure(sname, st) and boxed and not D.violations(spec, xs, tol=0.0) \
                and D.objective_in_domain(spec, xs):
            return {'status': 'violation', 'features': f, 'sig': sig, 'nontrivial': True,
                    'mechanism': 'status_mismatch:' + f['obj'],
                    'detail': [{'what': 'model is feasible (point below satisfies every user '
                                'constraint) and all variables are boxed, yet it is reported '
                                'infeasible/unbounded', 'status': st, 'solver': sname,
                                'feasible_point': xs.tolist(),
                                'objective_there': D.objective(spec, xs)}],
                    'not_optimal': True}
        return {'status': 'skip', 'reason': 'not optimal: %s %s' % (sname, st[:40]),
                'features': f, 'not_optimal': True,
                'definitive': C.definitive_failure(sname, st)}
    x = D.read_x(spec, B)
    tol = 1e-6 if sname in ('def', 'ort', 'grb', 'lpg') and D.cone_need(spec) == 'L' else 2e-5
    viol = D.violations(spec, x, tol=tol)
    val = B.model.get()
    want = D.objective(spec, x)
    detail = []
    if viol:
        detail.append({'what': 'user constraint violated at returned point', 'which': viol[:4],
                       'x': x.tolist(), 'solver': sname})
    otol = 20 * tol * (1 + abs(want))
    if any(b['vtype'] != 'C' for b in spec['blocks']):
        # MILP interfaces stop at a relative gap of 1e-4: the incumbent's auxiliary (epigraph)
        # variables need not be tight, so the reported value may exceed the expression by the gap
        otol = max(otol, 2e-4 * (1 + abs(want)))
    if abs(val - want) > otol:
        detail.append({'what': 'reported objective differs from the objective expression',
                       'reported': float(val), 'evaluated': float(want), 'x': x.tolist(),
                       'solver': sname})
    active = 0
    for c in spec['cvx']:
        lhs, ok = D.cvx_lhs(c, x)
        if np.min(np.abs(lhs)) <= 1e-4 * (1 + c['mult']):
            active += 1
    for s in spec['special']:
        if abs(D.special_viol(s, x)) <= 1e-4:
            active += 1
    res = {'features': f, 'sig': sig, 'observed': {'x': x.tolist(), 'value': float(val),
                                                    'active': active}}
    if want_B:
        res['B'] = B
        res['x'] = x
        res['sname'] = sname
        res['tol'] = tol
    if detail:
        res.update({'status': 'violation', 'mechanism': classify(spec, detail, sname),
                    'detail': detail, 'nontrivial': True})
        return res
    res.update({'status': 'held', 'nontrivial': active > 0})
    return res


def classify(spec, detail, sname):
    d = detail[0]
    if d['what'].startswith('user constraint'):
        tag = d['which'][0][0]
        if tag.startswith('cvx'):
            return 'constraint_not_enforced:' + tag.split(':')[-1]
        if tag.startswith('special'):
            return 'constraint_not_enforced:' + tag.split(':')[-1]
        if tag.startswith(('lb', 'ub')):
            i = int(tag[2:])
            vt = sum([[b['vtype']] * b['n'] for b in spec['blocks']], [])[i]
            return 'bound_not_enforced:%s:%s' % (vt, sname)
        return 'constraint_not_enforced:' + tag.rstrip('0123456789')
    return 'objective_misreported:' + (spec['obj']['cvx']['atom'] if spec['obj'].get('cvx')
                                       else 'pw' if spec['obj'].get('pieces') else 'affine')
