"""C07 - deterministic optimum is the true optimum; atom encodings are exact.

Three reference-model monitors on real solve() results:
 (1) pinned argument: min/max t s.t. mult*atom(M x0+v)+k <=/>= t, x == x0 must
     return the closed-form value of the atom (all atoms, parameter sweeps);
 (2) no better feasible point: an adversary (random feasible directions, SLSQP
     on the NumPy oracle) looks for a point of the user's model that is feasible
     in the oracle and strictly better than the reported optimum;
 (3) small integer models are compared with brute-force enumeration."""
import numpy as np

from rv import detmodel as D
from rv import atoms as AT
from rv import common as C
from rv.props import c06
from rv import contracts

N_CASES = {'quick': 2700, 'thorough': 20000}
TIMEOUT = {'quick': 1500, 'thorough': 6 * 3600}
ANCHORS = ['lp:IPCone.to_pot', 'lp:IPCone.split', 'lp:IPCone.to_soc', 'socp:Model.do_math',
           'gcp:Model.do_math', 'lp:Model.do_math', 'lp:Affine.quad', 'lp:Affine.rsocone',
           'lp:Affine.power', 'lp:Affine.pnorm', 'lp:Affine.gmean']
FLOORS = {'judged': {'quick': 1800, 'thorough': 12000}, 'nontrivial': 120,
          'counters': {'pinned_judged': 200, 'improve_searches': 80, 'bruteforce_judged': 20}}
RULE = ('(1) pinned-argument encodings of every atom with random admissible parameters '
        '(p-norm degrees 3..8 and rationals a/b<=12, exc floats, power p/q incl. arrays, gmean '
        'weights 1..7, PSD/NSD quad incl. rank-deficient, multipliers 0.1..10), ro and dro front '
        'ends; (2) random convex models from the C06 generator with an improving-feasible-point '
        'adversary; (3) integer models with brute force. Non-trivial: pinned cases with |value| '
        '> 1e-6, search cases where the adversary evaluated >= 100 feasible candidates, brute '
        'force cases with >= 2 feasible assignments; distinct by (mode, atom, params class, '
        'front, solver)')
ASSUMPTIONS = ['closed forms in rv/atoms.py are the meaning of the atoms',
               'an adversary failing to find a better point is not a proof of optimality']


def setup_worker(ctx):
    contracts.install_helpers(ctx, ['rso_broadcast'])


def gen_case(rng, idx, tier):
    r = rng.random()
    r2 = rng.random()
    if r2 < 0.15:
        from rv import bcast
        return bcast.gen(rng, tier)
    if r2 < 0.2:
        from rv import evpersp
        return evpersp.gen(rng, tier)
    if r < 0.55:
        names = list(AT.ATOMS)
        atom = names[idx % len(names)] if rng.random() < 0.7 else None
        spec = D.gen(rng, tier, cones='LQX', pinned=True, atom=atom)
        spec['mode'] = 'pinned'
    elif r < 0.85:
        spec = D.gen(rng, tier, cones=['L', 'LQ', 'LQX', 'X'][int(rng.integers(4))], ints=False)
        spec['mode'] = 'search'
    else:
        spec = D.gen(rng, tier, cones='L', ints='force', max_cvx=2)
        spec['mode'] = 'brute'
    # (ro front end only: a dro model raises when variables follow constraints - the open C09 finding)
    if rng.random() < (0.4 if spec['mode'] == 'brute' else 0.1) and spec['front'] == 'ro':
        spec['prelude'] = int(rng.integers(1 << 30))     # see detmodel._build
    return spec


def run_case(spec, ctx):
    if spec.get('kind') == 'bcast':
        from rv import bcast
        return bcast.run(spec, ctx)
    if spec.get('kind') == 'evpersp':
        from rv import evpersp
        return evpersp.run(spec, ctx)
    mode = spec['mode']
    res = c06.run_case(spec, ctx, want_B=True)
    B = res.pop('B', None)
    x = res.pop('x', None)
    sname = res.pop('sname', None)
    tol = res.pop('tol', 1e-6)
    f = res.get('features', {})
    f['mode'] = mode
    if mode == 'pinned':
        f['pin_atom'] = spec['pin']['atom']
        pr = spec['cvx'][0]['params']
        f['params'] = ('p=%s' % (pr['p'],) if 'p' in pr and 'q' not in pr else
                       'p/q=%s/%s' % (pr['p'], pr['q']) if 'q' in pr else
                       'beta=%s' % (pr['beta'],) if 'beta' in pr else
                       'rank=%d' % np.linalg.matrix_rank(np.array(pr['Q'])) if 'Q' in pr else '-')
    sig = '|'.join('%s=%s' % (k, f[k]) for k in sorted(f) if k not in ('spell',))
    res['sig'] = sig
    if res.get('not_optimal') and res['status'] in ('skip', 'violation'):
        if mode == 'pinned' and (res['status'] == 'violation' or res.get('definitive')) \
                and abs(spec['expected']) <= 1e3:
            # a pinned model is feasible and bounded by construction
            return {'status': 'violation', 'mechanism': 'pinned_status:' + spec['pin']['atom'],
                    'detail': {'what': 'pinned encoding model not solved', 'reason': res['reason'],
                               'expected': spec['expected']}, 'features': f, 'sig': sig,
                    'nontrivial': True}
        return res
    if res['status'] != 'held':
        if res['status'] == 'violation':
            res['mechanism'] = 'c06:' + str(res.get('mechanism'))
        return res
    val = B.model.get()
    if mode == 'pinned':
        ctx.count('pinned_judged')
        exp = spec['expected']
        t = 30 * tol * (1 + abs(exp))
        if abs(val - exp) > t:
            return {'status': 'violation', 'mechanism': 'encoding:' + spec['pin']['atom'],
                    'detail': {'what': 'pinned optimum differs from closed form',
                               'rsome': float(val), 'closed_form': float(exp),
                               'atom': spec['pin']['atom'], 'params': spec['cvx'][0]['params'],
                               'u': spec['pin']['u'], 'mult': spec['cvx'][0]['mult'],
                               'solver': sname}, 'features': f, 'sig': sig, 'nontrivial': True}
        res['nontrivial'] = abs(exp) > 1e-6
        return res
    if mode == 'brute':
        bf = D.brute_force(spec)
        if bf is None:
            res['nontrivial'] = False
            return res
        ctx.count('bruteforce_judged')
        if bf[0] == 'infeasible':
            return {'status': 'violation', 'mechanism': 'bruteforce_infeasible',
                    'detail': {'rsome': float(val)}, 'features': f, 'sig': sig,
                    'nontrivial': True}
        best, bx = bf
        # every MILP interface stops at a relative gap of 1e-4 by default (HiGHS, SCIP through
        # OR-Tools, Gurobi); an incumbent within that gap is what "optimal" means for them
        if abs(best - val) > 2e-4 * (1 + abs(best)):
            return {'status': 'violation', 'mechanism': 'bruteforce_mismatch',
                    'detail': {'rsome': float(val), 'enumeration': float(best),
                               'best_x': bx.tolist(), 'rsome_x': x.tolist(), 'solver': sname},
                    'features': f, 'sig': sig, 'nontrivial': True}
        res['nontrivial'] = True
        return res
    # search mode
    rng = np.random.default_rng(spec['spell'] + 7)
    ctx.count('improve_searches')
    imp = D.improve_search(spec, x, rng)
    if imp is not None:
        p, gain = imp
        if gain > 50 * tol * (1 + abs(val)):
            return {'status': 'violation', 'mechanism': 'better_feasible_point',
                    'detail': {'rsome_value': float(val), 'rsome_x': x.tolist(),
                               'better_x': np.asarray(p).tolist(),
                               'better_value': float(D.objective(spec, p)), 'gain': float(gain),
                               'solver': sname}, 'features': f, 'sig': sig, 'nontrivial': True}
    res['nontrivial'] = True
    return res
