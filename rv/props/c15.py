"""C15 - equivalent ways of writing a model give the same optimum.

Differential (metamorphic) monitor: a base model and rewritten versions of the
same declared model are all really solved; optimal values must agree.  Rewrites
(applied singly and in random combinations): min f <-> -max -f; declaration
order of variables, constraints and terms; a<=b <-> -b<=-a <-> b>=a incl.
reflected comparisons with ndarray on the left; == <-> pair of inequalities;
bounds as bound objects / rows / inf-norm / abs / element-wise loops; array
form <-> loops; positive rescaling of rows; the set as one list / several
arguments / nested tuples / generator; operand order of products; ro.Model <->
single-scenario dro.Model; ro <-> dro front end for deterministic models."""
import numpy as np

from rv import romodel as R
from rv import detmodel as D
from rv import common as C
from rv import contracts

N_CASES = {'quick': 720, 'thorough': 7000}
TIMEOUT = {'quick': 1500, 'thorough': 6 * 3600}
ANCHORS = ['ro:Model.st', 'ro:Model.minmax', 'ro:Model.maxmin', 'dro:Model.minsup',
           'dro:Model.maxinf', 'lp:Vars.__le__', 'lp:Vars.__ge__', 'lp:VarSub.__le__',
           'lp:VarSub.__ge__', 'subroutines:flat', 'lp:RoConstr.forall', 'lp:DecRoConstr.forall']
FLOORS = {'judged': {'quick': 440, 'thorough': 4500}, 'nontrivial': 60,
          'counters': {'rewrites_compared': 800}}
RULE = ('base models from the C01 (ro) and C06 (deterministic) generators, each with 4 (quick) / 6 '
        '(thorough) rewrites drawn from the rewrite group, all solved with the same interface. '
        'Non-trivial: base optimum finite and |optimum| > 1e-6 and at least one rewrite changed '
        'the compiled program\'s fingerprint; distinct by (class, rewrite set, set kinds, mode)')
ASSUMPTIONS = ['one solver interface is used for a base model and its rewrites; agreement '
               'tolerance 1e-6 (LP) / 1e-4 (conic)']

RO_REWRITES = ['flip_obj', 'decl_order', 'row_form', 'split_eq', 'xbound_form', 'ybound_loop',
               'st_nested',
               'rescale_rows', 'set_args', 'respell', 'row_order', 'shuffle_terms', 'dro_single',
               'vectorize', 'devectorize']


BSHAPES = ['scalar', 'row', 'row2', 'col', 'full']
BFORMS = ['obj', 'neg', 'row', 'loop', 'rowloop', 'abs', 'sparse', 'sninf', 'sabs']


BILFORMS = ['plain', 'T', 'TT', 'loop', 'rows', 'matmul', 'rmul', 'reshape']


def _bilinear(X, Z, Wz, form, n, m):
    """sum_ij Wz_ij X_ij Z_ij in several array spellings."""
    if form == 'plain':
        return (Wz * (X * Z)).sum()
    if form == 'T':
        return (Wz.T * (X * Z).T).sum()
    if form == 'TT':
        return ((X.T * Z.T) * Wz.T).T.sum()
    if form == 'loop':
        out = None
        for i in range(n):
            for j in range(m):
                t = float(Wz[i, j]) * X[i, j] * Z[i, j]
                out = t if out is None else out + t
        return out
    if form == 'rows':
        out = None
        for i in range(n):
            t = (Wz[i] * X[i]) @ Z[i]
            out = t if out is None else out + t
        return out
    if form == 'matmul':
        out = None
        for j in range(m):
            t = (Wz[:, j] * X[:, j]) @ Z[:, j]
            out = t if out is None else out + t
        return out
    if form == 'rmul':
        return ((X * Z) * Wz).sum(axis=0).sum()
    if form == 'reshape':
        return (Wz.reshape(-1) * (X * Z).reshape((n * m,))).sum()
    raise ValueError(form)


def _bshape(rng, n, m, kind, lo, hi):
    if kind == 'scalar':
        return float(np.round(rng.uniform(lo, hi), 1))
    shp = {'row': (m,), 'row2': (1, m), 'col': (n, 1), 'full': (n, m)}[kind]
    return np.round(rng.uniform(lo, hi, shp), 1).tolist()


def gen_matrix(rng, tier, robust=None):
    n, m = int(rng.integers(2, 5)), int(rng.integers(2, 5))
    if rng.random() < 0.25:
        m = n                              # square: a transposed broadcast would go unnoticed less
    sp = {'n': n, 'm': m, 'front': ['ro', 'dro'][int(rng.random() < 0.3)],
          'sense': ['min', 'max'][int(rng.integers(2))],
          'C': np.round(rng.uniform(-2, 2, (n, m)), 1).tolist(),
          'lo': _bshape(rng, n, m, BSHAPES[int(rng.integers(5))], -3, -0.5),
          'hi': _bshape(rng, n, m, BSHAPES[int(rng.integers(5))], 0.5, 3),
          'robust': bool(rng.random() < 0.5),
          'zlo': _bshape(rng, n, m, BSHAPES[int(rng.integers(5))], -1, -0.1),
          'zhi': _bshape(rng, n, m, BSHAPES[int(rng.integers(5))], 0.1, 1),
          'Wz': np.round(rng.uniform(-2, 2, (n, m)), 1).tolist(),
          'W': np.round(rng.uniform(-1, 1, (int(rng.integers(0, 3)), n, m)), 1).tolist(),
          'slack': float(np.round(rng.uniform(0.2, 1.5), 1))}
    if rng.random() < 0.35:                # symmetric bounds so that the abs / norm forms apply
        if rng.random() < 0.5:
            sp['hi'] = float(np.round(rng.uniform(0.5, 3), 1))
        sp['lo'] = (-np.asarray(sp['hi'])).tolist()
    if rng.random() < 0.35:
        if rng.random() < 0.5:
            sp['zhi'] = float(np.round(rng.uniform(0.1, 1), 1))
        sp['zlo'] = (-np.asarray(sp['zhi'])).tolist()
    elif rng.random() < 0.4:
        # some random components fixed at a non-zero value (lower bound == upper bound)
        zl = np.broadcast_to(np.asarray(sp['zlo'], float), (n, m)).copy()
        zh = np.broadcast_to(np.asarray(sp['zhi'], float), (n, m)).copy()
        fixed = rng.random((n, m)) < 0.35
        zl[fixed] = zh[fixed]
        sp['zlo'], sp['zhi'] = zl.tolist(), zh.tolist()
    if robust is not None:
        sp['robust'] = robust
    nv = 5 if tier == 'quick' else 8
    sp['variants'] = [{'x': [BFORMS[int(rng.integers(len(BFORMS)))] for _ in range(2)],
                       'z': [BFORMS[int(rng.integers(len(BFORMS)))] for _ in range(2)],
                       'flip': bool(rng.random() < 0.3),
                       'bil': int(rng.integers(len(BILFORMS)))} for _ in range(nv)]
    return {'kind': 'matrix', 'spec': sp}


def _bound(v, b, side, form, n, m, sym=False):
    """constraints saying v >= b (side 'L') or v <= b (side 'U') in the given spelling; b keeps
    the user's broadcastable shape."""
    import scipy.sparse as sps
    import rsome as rso
    bb = np.asarray(b, float)
    full = np.broadcast_to(bb, (n, m))
    b = bb if bb.ndim else float(bb)
    if form in ('abs', 'sabs', 'sninf') and not (side == 'U' and sym):
        form = 'obj'                       # |v| <= b says the same only for symmetric bounds
    if form == 'sninf' and bb.ndim != 0:
        form = 'sabs'                      # one norm needs one radius
    if form == 'sparse' and bb.shape != (n, m):
        form = 'obj'                       # scipy sparse matrices do not broadcast
    if form == 'obj':
        return [v >= b] if side == 'L' else [v <= b]
    if form == 'sparse':
        sb = sps.csr_matrix(bb)
        return [v >= sb] if side == 'L' else [v <= sb]
    if form == 'neg':
        return [-v <= -bb] if side == 'L' else [-v >= -bb]
    if form == 'row':
        return [v - bb >= 0] if side == 'L' else [bb - v >= 0]
    if form == 'loop':
        return [(v[i, j] >= float(full[i, j])) if side == 'L' else (v[i, j] <= float(full[i, j]))
                for i in range(n) for j in range(m)]
    if form == 'rowloop':
        return [(v[i] >= full[i]) if side == 'L' else (v[i] <= full[i]) for i in range(n)]
    if form == 'abs':
        return [abs(v) <= full]
    if form == 'sabs':                     # positively rescaled
        return [2.5 * abs(v) <= 2.5 * full]
    if form == 'sninf':                    # a rescaled infinity norm of the flattened variable
        k_ = [3.0, 0.25, 10.0][int(abs(float(bb)) * 100) % 3]
        import rsome as rso_
        return [k_ * rso_.norm(v.reshape((n * m,)), 'inf') <= k_ * float(bb)]
    raise ValueError(form)


def _matrix_reference(sp):
    from scipy.optimize import linprog
    n, m = sp['n'], sp['m']
    N = n * m
    Cm = np.asarray(sp['C'], float).reshape(-1)
    sg = 1.0 if sp['sense'] == 'min' else -1.0
    lo = np.broadcast_to(np.asarray(sp['lo'], float), (n, m)).reshape(-1)
    hi = np.broadcast_to(np.asarray(sp['hi'], float), (n, m)).reshape(-1)
    zlo = np.broadcast_to(np.asarray(sp['zlo'], float), (n, m)).reshape(-1)
    zhi = np.broadcast_to(np.asarray(sp['zhi'], float), (n, m)).reshape(-1)
    W = np.asarray(sp['W'], float).reshape(-1, N) if len(sp['W']) else np.zeros((0, N))
    x0 = 0.5 * (lo + hi)
    # min over X of  sg*C.X + sum_ij max_z (z_ij X_ij)   [worst case of sg*(C+Z).X for min;
    # for max the adversary minimises, i.e. maximises -(C+Z).X = sg*C.X + (-z).X]
    c = np.concatenate([sg * Cm, np.ones(N) if sp['robust'] else np.zeros(N)])
    A, b = [], []
    for k in range(len(W)):
        A.append(np.concatenate([-W[k], np.zeros(N)]))
        b.append(-(W[k] @ x0 - sp['slack']))
    Wz = np.asarray(sp.get('Wz', np.ones((n, m))), float).reshape(-1)
    if sp['robust']:
        for j in range(N):
            for zb in (zlo[j], zhi[j]):
                r = np.zeros(2 * N)
                r[j] = sg * zb * Wz[j]
                r[N + j] = -1.0
                A.append(r)
                b.append(0.0)
    res = linprog(c, A_ub=np.array(A) if A else None, b_ub=np.array(b) if b else None,
                  bounds=[(lo[j], hi[j]) for j in range(N)] + [(None, None)] * N
                  if sp['robust'] else [(lo[j], hi[j]) for j in range(N)] + [(0, 0)] * N,
                  method='highs')
    return sg * res.fun if res.status == 0 else None


def _matrix_value(sp, v):
    from rsome import ro, dro
    import rsome as rso
    n, m = sp['n'], sp['m']
    front = sp['front']
    mod = ro.Model() if front == 'ro' else dro.Model(1)
    X = mod.dvar((n, m))
    Cm = np.asarray(sp['C'], float)
    sense = sp['sense']
    sg = 1.0
    if v is not None and v.get('flip'):
        sense = 'max' if sense == 'min' else 'min'
        sg = -1.0
    fx, fz = (v['x'], v['z']) if v is not None else (['obj', 'obj'], ['obj', 'obj'])
    if front == 'dro':
        # a dro decision variable compared with a sparse matrix is refused loudly by st()
        fx = ['obj' if f == 'sparse' else f for f in fx]
    lo = np.broadcast_to(np.asarray(sp['lo'], float), (n, m))
    hi = np.broadcast_to(np.asarray(sp['hi'], float), (n, m))
    x0 = 0.5 * (lo + hi)
    if sp['robust']:
        Z = mod.rvar((n, m))
        zsym = bool(np.array_equal(-np.asarray(sp['zlo'], float), np.asarray(sp['zhi'], float)))
        zset = _bound(Z, sp['zlo'], 'L', fz[0], n, m) + \
            _bound(Z, sp['zhi'], 'U', fz[1], n, m, sym=zsym)
        Wz = np.asarray(sp.get('Wz', np.ones((n, m))), float)
        bil = BILFORMS[v['bil']] if v is not None and 'bil' in v else 'plain'
        obj = sg * ((Cm * X).sum() + _bilinear(X, Z, Wz, bil, n, m))
        if front == 'ro':
            (mod.minmax if sense == 'min' else mod.maxmin)(obj, zset)
        else:
            fs = mod.ambiguity()
            fs.suppset(*zset)
            (mod.minsup if sense == 'min' else mod.maxinf)(rso.E(obj), fs)
    else:
        obj = sg * (Cm * X).sum()
        (mod.min if sense == 'min' else mod.max)(obj)
    mod.st(_bound(X, sp['lo'], 'L', fx[0], n, m))
    xsym = bool(np.array_equal(-np.asarray(sp['lo'], float), np.asarray(sp['hi'], float)))
    mod.st(_bound(X, sp['hi'], 'U', fx[1], n, m, sym=xsym))
    for Wk in sp['W']:
        Wk = np.asarray(Wk, float)
        mod.st((Wk * X).sum() >= float((Wk * x0).sum() - sp['slack']))
    C.solve(mod, 'def')
    if not C.optimal(mod):
        return ('failed', str(getattr(mod.solution, 'status', None)))
    return ('optimal', sg * float(mod.get()))


def run_matrix(spec, ctx):
    sp = spec['spec']
    ref = _matrix_reference(sp)
    if ref is None:
        return {'status': 'skip', 'reason': 'reference LP not solved'}
    detail = []
    forms = set()
    try:
        r0 = _matrix_value(sp, None)
    except Exception as e:
        ctx.count('rsome_raises_base:' + type(e).__name__)
        return {'status': 'skip', 'reason': 'base matrix model raises: %s: %s'
                % (type(e).__name__, str(e)[:60])}
    tol = 1e-6 * (1 + abs(ref))
    if r0[0] != 'optimal' or abs(r0[1] - ref) > tol:
        detail.append({'what': 'bound objects with broadcast bounds: optimum differs from the '
                       'reference LP', 'rewrite': {'forms': 'obj'}, 'got': r0, 'reference': ref})
    for v in sp['variants']:
        try:
            rv_ = _matrix_value(sp, v)
        except Exception as e:
            ctx.count('matrix_form_raises:%s' % type(e).__name__)
            detail.append({'what': 'rewrite raises while the base model solves',
                           'rewrite': {'forms': v}, 'error': '%s: %s' % (type(e).__name__,
                                                                          str(e)[:80])})
            continue
        ctx.count('rewrites_compared')
        forms |= set(v['x']) | (set(v['z']) if sp['robust'] else set())
        if sp['robust'] and 'bil' in v:
            forms.add('bil:' + BILFORMS[v['bil']])
        if rv_[0] != 'optimal' or abs(rv_[1] - ref) > tol:
            detail.append({'what': 'rewrite changes the optimum', 'rewrite': {'forms': v},
                           'rewritten': rv_, 'reference': ref, 'base': r0})

    def kind(b):
        a = np.asarray(b)
        return 'scalar' if a.ndim == 0 else 'x'.join(str(1 if s == 1 else 'k') for s in a.shape)
    feats = {'class': 'matrix', 'front': sp['front'], 'robust': sp['robust'],
             'bshapes': sorted({kind(sp['lo']), kind(sp['hi'])} |
                               ({kind(sp['zlo']), kind(sp['zhi'])} if sp['robust'] else set())),
             'forms': sorted(forms)}
    sig = '|'.join('%s=%s' % (k, feats[k]) for k in sorted(feats))
    if detail:
        d = detail[0]
        return {'status': 'violation', 'mechanism': 'matrix:%s' % d['what'][:40],
                'detail': detail[:3], 'features': feats, 'sig': sig, 'nontrivial': True}
    return {'status': 'held', 'features': feats, 'sig': sig, 'nontrivial': abs(ref) > 1e-6,
            'observed': {'base': r0[1], 'reference': ref}}


def setup_worker(ctx):
    contracts.install_helpers(ctx, ['flat'])


def gen_case(rng, idx, tier):
    nrew = 4 if tier == 'quick' else 6
    if rng.random() < 0.2:
        return gen_matrix(rng, tier)
    if rng.random() < 0.1:
        from rv import matrule
        sp_ = matrule.gen(rng, tier)
        sp_['kind'] = 'matrule15'
        return sp_
    if rng.random() < 0.7:
        spec = R.gen(rng, tier)
        vs = []
        for _ in range(nrew):
            k = int(rng.integers(1, 4))
            names = list(rng.choice(RO_REWRITES, size=k, replace=False))
            v = {}
            for nme in names:
                if nme == 'decl_order':
                    v[nme] = ['zxy', 'xyz', 'zyx', 'yxz', 'yzx'][int(rng.integers(5))]
                elif nme == 'xbound_form':
                    v[nme] = int(rng.integers(1, 7))
                elif nme == 'set_args':
                    v[nme] = int(rng.integers(5))
                elif nme == 'vectorize':
                    v['vectorize'] = True
                    continue
                elif nme == 'devectorize':
                    v['vectorize'] = False
                    continue
                elif nme in ('row_form', 'respell', 'row_order'):
                    v[nme] = int(rng.integers(1, 1 << 20))
                else:
                    v[nme] = True
            vs.append(v)
        return {'kind': 'ro', 'spec': spec, 'variants': vs}
    spec = D.gen(rng, tier, cones=['L', 'LQ', 'LQX'][int(rng.integers(3))], ints=False)
    vs = []
    for _ in range(nrew):
        v = {'respell': int(rng.integers(1, 1 << 20))}
        if rng.random() < 0.5:
            v['front'] = 'dro' if spec['front'] == 'ro' else 'ro'
        if rng.random() < 0.4:
            v['cvx_spell'] = int(rng.integers(6))
        if rng.random() < 0.4:
            v['bound_style'] = ['obj', 'row'][int(rng.integers(2))]
        if rng.random() < 0.4:
            v['loose_bounds'] = int(rng.integers(1, 1 << 20))
        if rng.random() < 0.5:
            v['mult_into_arg'] = True
        vs.append(v)
    return {'kind': 'det', 'spec': spec, 'variants': vs}


def solve_value(B, sname):
    C.solve(B.model, sname)
    if not C.optimal(B.model):
        return ('failed', str(getattr(B.model.solution, 'status', None)))
    if sname == 'eco' and 'Optimal' not in str(B.model.solution.status):
        return ('inaccurate', None)
    return ('optimal', getattr(B, 'obj_sign', 1.0) * float(B.model.get()))


def run_case(spec, ctx):
    import copy
    kind = spec['kind']
    if kind == 'matrix':
        return run_matrix(spec, ctx)
    if kind == 'matrule15':
        # robust rows on a matrix-shaped rule: the array spelling drawn for the case and the
        # element-wise loops must give the same optimum (both are also compared with the closed
        # form)
        from rv import matrule
        import copy as _c
        a_ = matrule.run(dict(spec, kind='matrule'), ctx, exact=True)
        if a_.get('status') != 'held':
            return a_
        s2 = _c.deepcopy(spec)
        s2['kind'] = 'matrule'
        s2['spell'] = 'entries' if spec['spell'] != 'entries' else 'plain'
        b_ = matrule.run(s2, ctx, exact=True)
        if b_.get('status') == 'violation':
            return b_
        ctx.count('rewrites_compared')
        if b_.get('status') == 'held' and abs(a_['observed']['value'] - b_['observed']['value']) > \
                1e-6 * (1 + abs(a_['observed']['value'])):
            return {'status': 'violation', 'mechanism': 'matrule:array and loop spellings differ',
                    'detail': {'array': a_['observed'], 'loops': b_['observed']},
                    'features': a_.get('features'), 'sig': a_.get('sig'), 'nontrivial': True}
        return a_
    base = spec['spec']
    try:
        B0 = R.build(base) if kind == 'ro' else D.build(base)
        f0 = B0.model.do_math()
    except Exception as e:
        ctx.count('rsome_raises_base:' + type(e).__name__)
        return {'status': 'skip', 'reason': 'base model raises: %s' % type(e).__name__}
    cls = C.cone_class(f0)
    sname = {'L': 'def', 'Q': 'eco', 'X': 'eco'}[cls[0]]
    try:
        r0 = solve_value(B0, sname)
    except Exception as e:
        return {'status': 'skip', 'reason': 'base solve raises: %s' % type(e).__name__}
    if r0[0] != 'optimal':
        return {'status': 'skip', 'reason': 'base not optimal: %s' % (r0[1],)}
    v0 = r0[1]
    fp0 = C.fingerprint(f0)
    tol = (1e-6 if cls == 'L' else 1e-4) * (1 + abs(v0))
    detail = []
    changed = 0
    names = set()
    for v in spec['variants']:
        names |= set(v)
        try:
            if kind == 'ro':
                if v.get('dro_single'):
                    Bv = R.build_dro_single(base, v)
                else:
                    Bv = R.build(base, variant=v)
            else:
                sp = copy.deepcopy(base)
                if 'front' in v:
                    sp['front'] = v['front']
                if 'cvx_spell' in v:
                    for c in sp['cvx']:
                        c['spell'] = v['cvx_spell']
                if 'bound_style' in v:
                    for b in sp['bounds']:
                        b['style'] = v['bound_style']
                Bv = D.build(sp, variant=v)
            fv = Bv.model.do_math()
            rv_ = solve_value(Bv, sname if C.cone_class(fv)[0] == cls[0] else
                              {'L': 'def', 'Q': 'eco', 'X': 'eco'}[C.cone_class(fv)[0]])
        except Exception as e:
            msg = '%s: %s' % (type(e).__name__, str(e)[:80])
            if v.get('dro_single') and 'Invalid constraint type' in msg:
                ctx.count('dro_support_type_unsupported')       # KL pieces are not accepted
                continue
            if kind == 'det' and v.get('front') == 'dro':
                ctx.count('dro_front_raises:' + type(e).__name__)   # unsupported atom in dro
                continue
            detail.append({'what': 'rewrite raises while the base model solves', 'rewrite': v,
                           'error': msg})
            continue
        ctx.count('rewrites_compared')
        if C.fingerprint(fv) != fp0:
            changed += 1
        if rv_[0] == 'inaccurate':
            continue
        if rv_[0] != 'optimal':
            if C.definitive_failure(sname, rv_[1]):
                detail.append({'what': 'rewrite is reported infeasible/unbounded, base is '
                               'optimal', 'rewrite': v, 'status': rv_[1], 'base': v0})
            continue
        if abs(rv_[1] - v0) > tol:
            detail.append({'what': 'rewrite changes the optimum', 'rewrite': v, 'base': v0,
                           'rewritten': rv_[1]})
    feats = {'class': kind, 'cone': cls, 'rewrites': sorted(names)}
    if kind == 'ro':
        feats['mode'] = base['mode']
        feats['sets'] = sorted({p['t'] for p in base['dset']})
    sig = '|'.join('%s=%s' % (k, feats[k]) for k in sorted(feats))
    if detail:
        d = detail[0]
        rw = sorted(k for k in d['rewrite'] if k != 'hook')
        return {'status': 'violation', 'mechanism': '%s:%s' % (d['what'][:30], ','.join(rw)),
                'detail': detail[:3], 'features': feats, 'sig': sig, 'nontrivial': True}
    return {'status': 'held', 'features': feats, 'sig': sig,
            'nontrivial': bool(abs(v0) > 1e-6 and changed > 0),
            'observed': {'base': v0, 'changed_programs': changed}}
