"""C15 - equivalent ways of writing a model give the same optimum.

Differential (metamorphic) monitor: a base model and rewritten versions of the
same declared model are all really solved; optimal values must agree.  Rewrites
(applied singly and in random combinations): min f <-> -max -f; declaration
order of variables, constraints and terms; a<=b <-> -b<=-a <-> b>=a incl.
reflected comparisons with ndarray on the left; == <-> pair of inequalities;
bounds as bound objects / rows / inf-norm / abs / element-wise loops; array
form <-> loops; positive rescaling of rows; the set as one list / several
arguments / nested tuples / generator; operand order of products; ro.Model <->
single-scenario dro.Model; ro <-> dro front end for deterministic models."""
import numpy as np

from rv import romodel as R
from rv import detmodel as D
from rv import common as C

N_CASES = {'quick': 360, 'thorough': 7000}
TIMEOUT = {'quick': 1500, 'thorough': 6 * 3600}
ANCHORS = ['ro:Model.st', 'ro:Model.minmax', 'ro:Model.maxmin', 'dro:Model.minsup',
           'dro:Model.maxinf', 'lp:Vars.__le__', 'lp:Vars.__ge__', 'lp:VarSub.__le__',
           'lp:VarSub.__ge__', 'subroutines:flat', 'lp:RoConstr.forall', 'lp:DecRoConstr.forall']
FLOORS = {'judged': {'quick': 220, 'thorough': 4500}, 'nontrivial': 60,
          'counters': {'rewrites_compared': 800}}
RULE = ('base models from the C01 (ro) and C06 (deterministic) generators, each with 4 (quick) / 6 '
        '(thorough) rewrites drawn from the rewrite group, all solved with the same interface. '
        'Non-trivial: base optimum finite and |optimum| > 1e-6 and at least one rewrite changed '
        'the compiled program\'s fingerprint; distinct by (class, rewrite set, set kinds, mode)')
ASSUMPTIONS = ['one solver interface is used for a base model and its rewrites; agreement '
               'tolerance 1e-6 (LP) / 1e-4 (conic)']

RO_REWRITES = ['flip_obj', 'decl_order', 'row_form', 'split_eq', 'xbound_form', 'ybound_loop',
               'rescale_rows', 'set_args', 'respell', 'row_order', 'shuffle_terms', 'dro_single',
               'vectorize', 'devectorize']


def gen_case(rng, idx, tier):
    nrew = 4 if tier == 'quick' else 6
    if rng.random() < 0.7:
        spec = R.gen(rng, tier)
        vs = []
        for _ in range(nrew):
            k = int(rng.integers(1, 4))
            names = list(rng.choice(RO_REWRITES, size=k, replace=False))
            v = {}
            for nme in names:
                if nme == 'decl_order':
                    v[nme] = ['zxy', 'xyz', 'zyx', 'yxz', 'yzx'][int(rng.integers(5))]
                elif nme == 'xbound_form':
                    v[nme] = int(rng.integers(1, 5))
                elif nme == 'set_args':
                    v[nme] = int(rng.integers(4))
                elif nme == 'vectorize':
                    v['vectorize'] = True
                    continue
                elif nme == 'devectorize':
                    v['vectorize'] = False
                    continue
                elif nme in ('row_form', 'respell', 'row_order'):
                    v[nme] = int(rng.integers(1, 1 << 20))
                else:
                    v[nme] = True
            vs.append(v)
        return {'kind': 'ro', 'spec': spec, 'variants': vs}
    spec = D.gen(rng, tier, cones=['L', 'LQ', 'LQX'][int(rng.integers(3))], ints=False)
    vs = []
    for _ in range(nrew):
        v = {'respell': int(rng.integers(1, 1 << 20))}
        if rng.random() < 0.5:
            v['front'] = 'dro' if spec['front'] == 'ro' else 'ro'
        if rng.random() < 0.4:
            v['cvx_spell'] = int(rng.integers(6))
        if rng.random() < 0.4:
            v['bound_style'] = ['obj', 'row'][int(rng.integers(2))]
        vs.append(v)
    return {'kind': 'det', 'spec': spec, 'variants': vs}


def solve_value(B, sname):
    C.solve(B.model, sname)
    if not C.optimal(B.model):
        return ('failed', str(getattr(B.model.solution, 'status', None)))
    if sname == 'eco' and 'Optimal' not in str(B.model.solution.status):
        return ('inaccurate', None)
    return ('optimal', getattr(B, 'obj_sign', 1.0) * float(B.model.get()))


def run_case(spec, ctx):
    import copy
    kind = spec['kind']
    base = spec['spec']
    try:
        B0 = R.build(base) if kind == 'ro' else D.build(base)
        f0 = B0.model.do_math()
    except Exception as e:
        ctx.count('rsome_raises_base:' + type(e).__name__)
        return {'status': 'skip', 'reason': 'base model raises: %s' % type(e).__name__}
    cls = C.cone_class(f0)
    sname = {'L': 'def', 'Q': 'eco', 'X': 'eco'}[cls[0]]
    try:
        r0 = solve_value(B0, sname)
    except Exception as e:
        return {'status': 'skip', 'reason': 'base solve raises: %s' % type(e).__name__}
    if r0[0] != 'optimal':
        return {'status': 'skip', 'reason': 'base not optimal: %s' % (r0[1],)}
    v0 = r0[1]
    fp0 = C.fingerprint(f0)
    tol = (1e-6 if cls == 'L' else 1e-4) * (1 + abs(v0))
    detail = []
    changed = 0
    names = set()
    for v in spec['variants']:
        names |= set(v)
        try:
            if kind == 'ro':
                if v.get('dro_single'):
                    Bv = R.build_dro_single(base, v)
                else:
                    Bv = R.build(base, variant=v)
            else:
                sp = copy.deepcopy(base)
                if 'front' in v:
                    sp['front'] = v['front']
                if 'cvx_spell' in v:
                    for c in sp['cvx']:
                        c['spell'] = v['cvx_spell']
                if 'bound_style' in v:
                    for b in sp['bounds']:
                        b['style'] = v['bound_style']
                Bv = D.build(sp, variant=v)
            fv = Bv.model.do_math()
            rv_ = solve_value(Bv, sname if C.cone_class(fv)[0] == cls[0] else
                              {'L': 'def', 'Q': 'eco', 'X': 'eco'}[C.cone_class(fv)[0]])
        except Exception as e:
            msg = '%s: %s' % (type(e).__name__, str(e)[:80])
            if v.get('dro_single') and 'Invalid constraint type' in msg:
                ctx.count('dro_support_type_unsupported')       # KL pieces are not accepted
                continue
            if kind == 'det' and v.get('front') == 'dro':
                ctx.count('dro_front_raises:' + type(e).__name__)   # unsupported atom in dro
                continue
            detail.append({'what': 'rewrite raises while the base model solves', 'rewrite': v,
                           'error': msg})
            continue
        ctx.count('rewrites_compared')
        if C.fingerprint(fv) != fp0:
            changed += 1
        if rv_[0] == 'inaccurate':
            continue
        if rv_[0] != 'optimal':
            if C.definitive_failure(sname, rv_[1]):
                detail.append({'what': 'rewrite is reported infeasible/unbounded, base is '
                               'optimal', 'rewrite': v, 'status': rv_[1], 'base': v0})
            continue
        if abs(rv_[1] - v0) > tol:
            detail.append({'what': 'rewrite changes the optimum', 'rewrite': v, 'base': v0,
                           'rewritten': rv_[1]})
    feats = {'class': kind, 'cone': cls, 'rewrites': sorted(names)}
    if kind == 'ro':
        feats['mode'] = base['mode']
        feats['sets'] = sorted({p['t'] for p in base['dset']})
    sig = '|'.join('%s=%s' % (k, feats[k]) for k in sorted(feats))
    if detail:
        d = detail[0]
        rw = sorted(k for k in d['rewrite'] if k != 'hook')
        return {'status': 'violation', 'mechanism': '%s:%s' % (d['what'][:30], ','.join(rw)),
                'detail': detail[:3], 'features': feats, 'sig': sig, 'nontrivial': True}
    return {'status': 'held', 'features': feats, 'sig': sig,
            'nontrivial': bool(abs(v0) > 1e-6 and changed > 0),
            'observed': {'base': v0, 'changed_programs': changed}}
