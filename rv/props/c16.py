"""C16 - exports (.lp file, show tables) describe exactly the solved program.

Differential monitors: (1) the text of lp_export()/to_lp() is parsed by an
independent LP-format reader and must reproduce the formula's arrays exactly
(float repr round-trips); (2) Gurobi's own reader loads the written file and
its optimum must equal the direct solve; (3) every cell of show() is compared
with the formula data."""
import os
import tempfile

import numpy as np
import scipy.sparse as sp

from rv import source as SRC
from rv import common as C
from rv import lpformat
from rv import rawsolve

N_CASES = {'quick': 2000, 'thorough': 16000}
TIMEOUT = {'quick': 1500, 'thorough': 6 * 3600}
ANCHORS = ['lp:LinProg.lp_export', 'lp:LinProg.to_lp', 'socp:SOCProg.lp_export',
           'lp:LinProg.showlc', 'socp:SOCProg.showqc', 'gcp:GCProg.show', 'gcp:GCProg.showec']
FLOORS = {'judged': {'quick': 1375, 'thorough': 11000}, 'nontrivial': 60,
          'counters': {'gurobi_roundtrips': 150, 'show_tables': 300, 'show_tables_expcone': 10}}
RULE = ('compiled LP/MILP/SOCP programs (all bound patterns, empty rows, binaries/integers with '
        'user bounds, robust counterparts) plus rescaled coefficients 1e-12..1e12, exact zeros '
        'and negative zeros; parsed back by rv/lpformat.py and by gurobipy.read, show() compared '
        'cell by cell. Non-trivial: >= 1 negative leading coefficient or exponent-notation '
        'number or quadratic row or integer section present; distinct by (class, cone, features '
        'present)')
ASSUMPTIONS = ['rv/lpformat.py implements the LP-format grammar subset correctly',
               'Gurobi\'s LP reader is an independent reader; exp-cone rows cannot be exported and '
               'are outside the statement']


def gen_case(rng, idx, tier):
    src = SRC.gen(rng, tier, kinds=['lp', 'lp', 'milp', 'milp', 'conic', 'ro', 'ro'] +
                  (['dro'] if SRC.HAS_DRO else []), outcomes=('optimal',))
    src['rescale'] = None
    # the dual program is a compiled formula too (its cones list the head first, with the
    # smallest index)
    src['dual'] = bool(src['kind'] in ('conic', 'ro', 'dro', 'lp') and rng.random() < 0.3)
    if src['kind'] in ('lp', 'milp') and rng.random() < 0.45:
        src['rescale'] = int(rng.integers(1 << 30))
    return src


def rescale(spec, seed):
    rng = np.random.default_rng(seed)
    for l in spec['lin']:
        A = np.array(l['A'], float)
        k = rng.integers(-12, 13, A.shape)
        m = rng.random(A.shape)
        A = np.where(m < 0.3, A * 10.0 ** k, A)
        A = np.where((m > 0.3) & (m < 0.4), 0.0, A)
        A = np.where((m > 0.4) & (m < 0.45), -0.0, A)
        l['A'] = A.tolist()
        b = np.array(l['b'], float)
        kb = rng.integers(-12, 13, b.shape)
        l['b'] = np.where(rng.random(b.shape) < 0.3, b * 10.0 ** kb, b).tolist()
    c = np.array(spec['obj']['c'], float)
    kc = rng.integers(-12, 13, c.shape)
    spec['obj']['c'] = np.where(rng.random(c.shape) < 0.3, c * 10.0 ** kc, c).tolist()


def run_case(spec, ctx):
    src = spec
    if src.get('rescale') is not None:
        rescale(src['spec'], src['rescale'])
    try:
        B = SRC.build(src)
        f = B.model.do_math()
        if src.get('dual') and 'I' not in C.cone_class(f):
            f = B.model.do_math(primal=False)
    except Exception as e:
        ctx.count('rsome_raises_build:' + type(e).__name__)
        return {'status': 'skip', 'reason': 'rsome raised at build: %s' % type(e).__name__}
    cls = C.cone_class(f)
    # exp-cone programs cannot be exported (outside the statement); their show() table is
    # checked like every other one
    exp_prog = 'X' in cls
    detail = []
    text = '' if exp_prog else f.lp_export()
    A = sp.csr_matrix(f.linear).toarray()
    n = A.shape[1]
    feats = {'class': src['kind'], 'cone': cls, 'rescaled': src.get('rescale') is not None,
             'dual': bool(src.get('dual')),
             'head_not_last': any(len(q_) > 1 and q_[0] < max(q_[1:]) for q_ in
                                  (getattr(f, 'qmat', None) or []))}
    # ---- (1) independent reader
    P = None
    if not exp_prog:
        try:
            P = lpformat.parse(text)
        except lpformat.LPFormatError as e:
            detail.append({'what': 'export cannot be parsed', 'error': str(e)[:200]})
    if P is not None:
        def pad(v, fill=0.0):
            v = np.asarray(v, float)
            return np.concatenate([v, np.full(n - len(v), fill)]) if len(v) < n else v
        obj = np.asarray(f.obj, float).reshape(-1)
        if P['sense'] != 'min':
            detail.append({'what': 'objective sense is not Minimize'})
        if not np.array_equal(pad(P['obj']) + 0.0, obj + 0.0):
            detail.append({'what': 'objective coefficients differ', 'file': P['obj'].tolist(),
                           'formula': obj.tolist()})
        PA = P['A']
        if PA.shape[1] < n:
            PA = np.hstack([PA, np.zeros((PA.shape[0], n - PA.shape[1]))])
        if PA.shape != A.shape:
            detail.append({'what': 'number of rows/columns differs', 'file': list(PA.shape),
                           'formula': list(A.shape)})
        else:
            if not np.array_equal(PA + 0.0, A + 0.0):
                i, j = np.argwhere((PA + 0.0) != (A + 0.0))[0]
                detail.append({'what': 'row coefficients differ', 'row': int(i), 'col': int(j),
                               'file': float(PA[i, j]), 'formula': float(A[i, j])})
            if not np.array_equal(P['rhs'] + 0.0, np.asarray(f.const, float) + 0.0):
                detail.append({'what': 'right-hand sides differ'})
            want = ['=' if s == 1 else '<=' for s in f.sense]
            if P['row_sense'] != want:
                detail.append({'what': 'row senses differ', 'file': P['row_sense'][:10],
                               'formula': want[:10]})
        if P['n'] <= n:
            if not (np.array_equal(pad(P['lb'], 0.0)[:P['n']], np.asarray(f.lb, float)[:P['n']])
                    and np.array_equal(pad(P['ub'], np.inf)[:P['n']],
                                       np.asarray(f.ub, float)[:P['n']]))\
                    or len(P['lb']) != n:
                detail.append({'what': 'bounds differ', 'file_lb': P['lb'].tolist()[:8],
                               'formula_lb': np.asarray(f.lb).tolist()[:8],
                               'file_ub': P['ub'].tolist()[:8],
                               'formula_ub': np.asarray(f.ub).tolist()[:8]})
        vt = np.asarray(f.vtype)
        pv = np.concatenate([P['vtype'], np.array(['C'] * (n - len(P['vtype'])))]) \
            if len(P['vtype']) < n else P['vtype']
        if not np.array_equal(pv, vt):
            detail.append({'what': 'variable types differ'})
        qm = [list(map(int, q)) for q in getattr(f, 'qmat', []) or []]
        pq = [(sorted(pl), mi) for _, pl, mi in P['qrows']]
        wq = [(sorted(q[1:]), [q[0]]) for q in qm]
        if pq != wq:
            detail.append({'what': 'quadratic rows differ', 'file': pq[:3], 'formula': wq[:3]})
    # ---- (3) show()
    try:
        T = f.show()
        ctx.count('show_tables')
        if exp_prog:
            ctx.count('show_tables_expcone')
        bad = check_show(f, T, A)
        if bad:
            detail.append({'what': 'show() disagrees with the formula', 'where': bad})
    except Exception as e:
        ctx.count('show_raises:' + type(e).__name__)
    # ---- (2) Gurobi's reader on the written file
    lead_neg = any(ln.split(':', 1)[-1].strip().startswith('-') for ln in text.split('\n')
                   if ':' in ln)
    has_exp = 'e-' in text or 'e+' in text
    if src.get('rescale') is None and not detail and not exp_prog:
        try:
            r = gurobi_roundtrip(f, ctx)
            if r:
                detail.append(r)
        except Exception as e:
            ctx.count('gurobi_roundtrip_error:' + type(e).__name__)
    feats.update({'lead_neg': lead_neg, 'exp_notation': has_exp,
                  'quad_rows': bool(getattr(f, 'qmat', None)),
                  'int_sections': bool(np.any(np.asarray(f.vtype) != 'C')),
                  'inf_bounds': bool(np.any(np.isinf(f.lb)) or np.any(np.isinf(f.ub)))})
    feats['shape'] = '%dx%d' % A.shape
    feats['neg_zero'] = '-0.0' in text
    sig = '|'.join('%s=%s' % (k, feats[k]) for k in sorted(feats))
    if detail:
        return {'status': 'violation', 'mechanism': detail[0]['what'], 'detail': detail[:3],
                'features': feats, 'sig': sig, 'nontrivial': True}
    return {'status': 'held', 'features': feats, 'sig': sig,
            'nontrivial': bool(lead_neg or has_exp or feats['quad_rows'] or feats['int_sections']),
            'observed': {'rows': int(A.shape[0]), 'cols': int(n), 'chars': len(text)}}


def check_show(f, T, A):
    n = A.shape[1]
    cols = ['x%d' % (i + 1) for i in range(n)]
    if list(T.columns) != cols + ['sense', 'constant']:
        return 'columns'
    idx = list(T.index)
    m = A.shape[0]
    qm = getattr(f, 'qmat', []) or []
    xm = getattr(f, 'xmat', []) or []
    want_idx = ['Obj'] + ['LC%d' % (j + 1) for j in range(m)] + \
        ['QC%d' % (j + 1) for j in range(len(qm))] + ['EC%d' % (j + 1) for j in range(len(xm))] + \
        ['UB', 'LB', 'Type']
    if idx != want_idx:
        return 'index %s vs %s' % (idx[:4], want_idx[:4])
    vals = T[cols].to_numpy()
    if not np.array_equal(vals[0].astype(float), np.asarray(f.obj, float).reshape(-1)):
        return 'Obj row'
    if m and not np.array_equal(vals[1:1 + m].astype(float), A):
        return 'LC coefficients'
    sn = list(T['sense'].iloc[1:1 + m])
    if sn != ['==' if s == 1 else '<=' for s in f.sense]:
        return 'LC sense'
    if not np.array_equal(np.asarray(T['constant'].iloc[1:1 + m], float),
                          np.asarray(f.const, float)):
        return 'LC constant'
    r = 1 + m
    for q in qm:
        row = np.zeros(n)
        row[list(q[1:])] = 1.0
        row[q[0]] = -1.0
        if not np.array_equal(vals[r].astype(float), row):
            return 'QC row'
        if T['sense'].iloc[r] != '<=' or float(T['constant'].iloc[r]) != 0.0:
            return 'QC sense/constant'
        r += 1
    for e in xm:
        row = np.zeros(n)
        row[e[0]], row[e[1]], row[e[2]] = 1, 2, 3
        if not np.array_equal(vals[r].astype(float), row):
            return 'EC row'
        if T['sense'].iloc[r] != '-' or T['constant'].iloc[r] != '-':
            return 'EC sense/constant'
        r += 1
    if not np.array_equal(vals[r].astype(float), np.asarray(f.ub, float)):
        return 'UB'
    if not np.array_equal(vals[r + 1].astype(float), np.asarray(f.lb, float)):
        return 'LB'
    if list(vals[r + 2]) != list(np.asarray(f.vtype)):
        return 'Type'
    return None


def gurobi_roundtrip(f, ctx):
    import gurobipy as gp
    vt = np.asarray(f.vtype)
    lb, ub = np.asarray(f.lb, float), np.asarray(f.ub, float)
    if np.any((vt == 'B') & ((lb > 0) | (ub < 1))):
        ctx.count('roundtrip_skipped_bounded_binary')
        return None
    direct = rawsolve.gurobi(f)
    d = tempfile.mkdtemp(prefix='rsome-lp-', dir='/dev/shm' if os.path.isdir('/dev/shm') else None)
    try:
        # file names as users write them in parameter sweeps: to_lp(name) writes name + '.lp'
        stem = ['prog', 'budget_1.25', 'model.v2', 'run_0.5', 'a.b.c'][int(f.linear.shape[1] + f.linear.shape[0]) % 5]
        name = os.path.join(d, stem)
        f.to_lp(name)
        if not os.path.exists(name + '.lp'):
            return {'what': 'to_lp(name) did not write name.lp', 'name': stem,
                    'written': sorted(os.listdir(d))}
        env = gp.Env(params={'OutputFlag': 0})
        try:
            m = gp.read(name + '.lp', env=env)
        except gp.GurobiError as e:
            if 'license' in str(e).lower():
                return None
            return {'what': 'gurobi cannot read the written file', 'error': str(e)[:200]}
        m.Params.DualReductions = 0
        m.Params.Threads = 1
        if getattr(f, 'qmat', None):
            m.Params.BarQCPConvTol = 1e-10     # same parameters as the direct solve
        try:
            m.optimize()
        except gp.GurobiError:
            return None
        st = m.Status
        ctx.count('gurobi_roundtrips')
        if direct[0] == 'optimal':
            if st in (gp.GRB.INFEASIBLE, gp.GRB.UNBOUNDED, gp.GRB.INF_OR_UNBD):
                return {'what': 'file optimum differs from direct solve',
                        'file_status': int(st), 'direct': direct[1]}
            if st != gp.GRB.OPTIMAL:
                # SUBOPTIMAL / NUMERIC / limits: the solver does not claim an optimum, nothing
                # to compare (seen with the tight barrier tolerance on quadratic rows)
                ctx.count('file_solve_without_verdict:%d' % int(st))
                return None
            if abs(m.ObjVal - direct[1]) > 1e-5 * (1 + abs(direct[1])):
                return {'what': 'file optimum differs from direct solve',
                        'file': float(m.ObjVal), 'direct': direct[1]}
        elif direct[0] in ('infeasible', 'unbounded') and st == gp.GRB.OPTIMAL:
            return {'what': 'file optimum differs from direct solve', 'file': float(m.ObjVal),
                    'direct': direct[0]}
        return None
    finally:
        for fn in os.listdir(d):
            os.unlink(os.path.join(d, fn))
        os.rmdir(d)
