"""C10 - only convex uses of convex/concave expressions are accepted.

Runtime monitor with an independent curvature calculus: an expression
E = s*atom(x) + w*y + k is built by a random chain of scalings, negations and
affine/constant additions (both operand orders) on RSOME objects, then used on
either side of <=, >=, == against a constant / affine / ndarray / np.float64, or
as min/max objective.  The harness records the stage at which RSOME raised
(expr, compare, st, do_math, solve) or that the model compiled, and for accepted
uses solves probe models with x, y pinned to check that the constraint or
objective means what was written.  Bilinear products must be rejected."""
import warnings

import numpy as np

from rv import atoms as AT
from rv import common as C

N_CASES = {'quick': 12000, 'thorough': 80000}
TIMEOUT = {'quick': 1500, 'thorough': 6 * 3600}
ANCHORS = ['lp:Convex.__neg__', 'lp:Convex.__add__', 'lp:Convex.__mul__', 'lp:Convex.__le__',
           'lp:Convex.__ge__', 'lp:Convex.__eq__', 'lp:PiecewiseConvex.__le__',
           'lp:PiecewiseConvex.__ge__', 'lp:PerspConvex.__le__', 'lp:PerspConvex.__ge__',
           'lp:DecAffine.__le__', 'lp:DecAffine.__ge__', 'lp:DecConvex.__le__',
           'lp:DecConvex.__ge__', 'lp:ExpPiecewiseConvex.__le__', 'lp:Affine.__mul__',
           'lp:Affine.__matmul__', 'lp:DecAffine.__mul__']
FLOORS = {'judged': {'quick': 9000, 'thorough': 60000}, 'nontrivial': 300,
          'counters': {'accepted_convex_probed': 300, 'rejected_nonconvex': 500,
                       'bilinear_rejected': 50}}
RULE = ('random (front end, atom family [plain, perspective, piecewise, expectation of piecewise], '
        'chain of 0-3 ops from {*c>0, *c<0, *0, *np.float64, neg, +k, -k, k-., +affine, -affine, '
        'affine-., +ndarray} with random operand order, comparison <=,>=,== with the expression '
        'on the left or on the right of a constant/affine/ndarray/np.float64, or min/max); '
        'verdict by an independent curvature calculus; accepted uses probed with pinned '
        'arguments. Non-trivial: every judged combination; distinct by (front, family, atom, '
        'chain ops, use, side, rhs kind, outcome class)')
ASSUMPTIONS = ['rejecting a convex use is allowed (counted as overly strict)',
               'a loud failure after st() on a VALID use is an observation, not a violation']

PLAIN = ['abs', 'norm1', 'norminf', 'norm2', 'square', 'sumsqr', 'quad', 'nquad', 'pnorm',
         'pnormx', 'power', 'gmean', 'exp', 'log', 'entropy', 'softplus', 'expsum', 'logsum']
PERSP = ['pexp', 'plog']
OPS = ['mulpos', 'mulneg', 'mul0', 'mulnp', 'neg', 'addk', 'subk', 'ksub', 'addaff', 'subaff',
       'affsub', 'addnd']
BILINEAR = ['dec*dec', 'dec@dec', 'rand*rand', 'rule*rand', 'adaptive*rand', 'cvx*cvx',
            'cvx*aff', 'cvx@aff', 'rand@rand', '(rule+static)*rand', '(rule-static)@rand',
            'rand*(2*rule+static-3)', 'E((rule+static)*rand)', '(static+rule)*rand',
            'norm(rule+static)',
            # stacking helpers: the adaptive operand in every position
            'sumsqr(static,rule)', 'sumsqr(rule,static)', 'fnorm(static,rule)',
            'norm(concat(static,rule))', 'norm(concat(rule,static))', 'norm(concat(const,rule))',
            'concat(static,rule)@rand', 'concat(rule,static)@rand', 'concat(const,rule)@rand',
            'square(rstack(static,rule))', 'quad(concat(static,rule))']


def gen_case(rng, idx, tier):
    if rng.random() < 0.09:
        return {'kind': 'bilinear', 'which': BILINEAR[int(rng.integers(len(BILINEAR)))],
                'front': 'ro' if rng.random() < 0.5 else 'dro', 'seed': int(rng.integers(1 << 30))}
    front = 'ro' if rng.random() < 0.5 else 'dro'
    fam = ['plain', 'plain', 'plain', 'persp', 'pw', 'pw', 'epw'][int(rng.integers(7))]
    if fam == 'epw':
        front = 'dro'
    n = int(rng.integers(1, 4))
    x0 = np.round(rng.uniform(0.3, 1.6, n) * rng.choice([-1, 1], n), 2)
    spec = {'kind': 'chain', 'front': front, 'family': fam, 'n': n}
    if fam in ('plain', 'persp'):
        atom = (PLAIN if fam == 'plain' else PERSP)[int(rng.integers(len(
            PLAIN if fam == 'plain' else PERSP)))]
        info = AT.ATOMS[atom]
        if info.get('dom') is not None:
            x0 = np.abs(x0)
        if info['kind'] == 'elem':
            n = 1
            x0 = x0[:1]
        elif n == 1 and atom not in ('norm1', 'norminf', 'norm2', 'sumsqr'):
            n = 2
            x0 = np.concatenate([x0, [0.7]])
        spec.update({'atom': atom, 'params': AT.random_params(rng, atom, n), 'n': n})
        spec['curv'] = info['curv']
    else:
        npc = int(rng.integers(2, 4))
        spec['pieces'] = [{'c': np.round(rng.uniform(-1.5, 1.5, n), 2).tolist(),
                           'd': float(np.round(rng.uniform(-1, 1), 2)),
                           'b': float(np.round(rng.uniform(-1, 1), 2)) if fam == 'epw' else 0.0}
                          for _ in range(npc)]
        spec['pwmax'] = bool(rng.random() < 0.5)
        spec['atom'] = ('E' if fam == 'epw' else '') + ('maxof' if spec['pwmax'] else 'minof')
        spec['curv'] = 1 if spec['pwmax'] else -1
    spec['x0'] = x0.tolist()
    spec['y0'] = float(np.round(rng.uniform(-1.5, 1.5), 2))
    depth = int(rng.choice([0, 1, 1, 2, 2, 3]))
    chain = []
    for _ in range(depth):
        op = OPS[int(rng.integers(len(OPS)))]
        val = float(np.round(rng.uniform(0.3, 3.0), 2))
        chain.append({'op': op, 'v': val, 'left': bool(rng.random() < 0.5)})
    spec['chain'] = chain
    if fam == 'plain' and spec['atom'] in ('expsum', 'logsum') and depth and rng.random() < 0.7:
        # this many chain steps are applied to the ARRAY exp(x) / log(x), before .sum()
        spec['inside_sum'] = int(rng.integers(1, depth + 1))
    if fam == 'epw' and depth and rng.random() < 0.6:
        spec['inside_E'] = int(rng.integers(1, depth + 1))   # this many chain steps inside E()
    spec['use'] = ['le', 'ge', 'eq', 'le', 'ge', 'min', 'max'][int(rng.integers(7))]
    spec['side'] = 'E-left' if rng.random() < 0.5 else 'R-left'
    spec['rhs'] = ['const', 'affine', 'ndarray', 'npfloat', 'affine'][int(rng.integers(5))]
    spec['seed'] = int(rng.integers(1 << 30))
    return spec


# ------------------------------------------------------------------ calculus

def calculus(spec):
    """(s, w, k): E = s*atom + w*y + k after the chain."""
    s, w, k = 1.0, 0.0, 0.0
    inside = int(spec.get('inside_sum', 0))
    for pos, o in enumerate(spec['chain']):
        if inside and pos == inside:
            # .sum() over n entries: constants and scalar affine terms were broadcast to each
            w, k = w * spec['n'], k * spec['n']
        op, v = o['op'], o['v']
        if op in ('mulpos', 'mulnp'):
            s, w, k = s * v, w * v, k * v
        elif op == 'mulneg':
            s, w, k = -s * v, -w * v, -k * v
        elif op == 'mul0':
            s, w, k = 0.0, 0.0, 0.0
        elif op == 'neg':
            s, w, k = -s, -w, -k
        elif op in ('addk', 'addnd'):
            k += v
        elif op == 'subk':
            k -= v
        elif op == 'ksub':
            s, w, k = -s, -w, v - k
        elif op == 'addaff':
            w += v
        elif op == 'subaff':
            w -= v
        elif op == 'affsub':
            s, w, k = -s, v - w, -k
    if inside and inside >= len(spec['chain']):
        w, k = w * spec['n'], k * spec['n']
    return s, w, k


def atom_value(spec):
    x0 = np.array(spec['x0'], float)
    if spec['family'] in ('plain', 'persp'):
        return float(np.sum(AT.value(spec['atom'], x0, spec['params'])))
    vals = []
    for p in spec['pieces']:
        base = float(np.dot(p['c'], x0) + p['d'])
        # E-sup over distributions on [0,1] of max_i(base_i + b_i z) is attained at z in {0,1}
        vals.append((base, base + p['b']))
    v = np.array(vals)
    if spec['pwmax']:
        return float(max(v[:, 0].max(), v[:, 1].max()))
    # minof: concave in z; E(minof) is used on the >= side: worst case = inf of expectation
    return float(min(v[:, 0].min(), v[:, 1].min()))


# ------------------------------------------------------------------ RSOME side

class Stage(Exception):
    def __init__(self, stage, err):
        super().__init__(stage)
        self.stage = stage
        self.err = err


def make_model(spec):
    import rsome as rso
    from rsome import ro, dro
    front = spec['front']
    m = ro.Model() if front == 'ro' else dro.Model()
    x = m.dvar(spec['n'])
    y = m.dvar()
    t = m.dvar()
    ctxd = {'m': m, 'x': x, 'y': y, 't': t, 'rso': rso}
    if spec['family'] == 'epw':
        z = m.rvar()
        amb = m.ambiguity()
        amb.suppset(z >= 0, z <= 1)
        ctxd['z'] = z
        ctxd['amb'] = amb
    return ctxd


def atom_expr(spec, d):
    rso, x = d['rso'], d['x']
    fam = spec['family']
    if fam in ('plain', 'persp'):
        k = int(spec.get('inside_sum', 0))
        if k:
            arr_ = rso.exp(x) if spec['atom'] == 'expsum' else rso.log(x)
            return apply_chain({'chain': spec['chain'][:k]}, arr_, d).sum()
        return AT.build(spec['atom'], rso, x, spec['params'])
    pcs = []
    for p in spec['pieces']:
        e = np.array(p['c']) @ x + p['d']
        if fam == 'epw':
            e = e + p['b'] * d['z']
        pcs.append(e)
    pw = rso.maxof(*pcs) if spec['pwmax'] else rso.minof(*pcs)
    if fam == 'epw':
        # E() is linear: a prefix of the chain may be applied inside the expectation
        k = int(spec.get('inside_E', 0))
        if k:
            pw = apply_chain({'chain': spec['chain'][:k]}, pw, d)
        return rso.E(pw)
    return pw


def apply_chain(spec, e, d):
    y = d['y']
    for o in spec['chain']:
        op, v, left = o['op'], o['v'], o['left']
        if op == 'mulpos':
            e = v * e if left else e * v
        elif op == 'mulneg':
            e = (-v) * e if left else e * (-v)
        elif op == 'mul0':
            e = 0 * e if left else e * 0
        elif op == 'mulnp':
            e = np.float64(v) * e if left else e * np.float64(v)
        elif op == 'neg':
            e = -e
        elif op == 'addk':
            e = v + e if left else e + v
        elif op == 'subk':
            e = e - v
        elif op == 'ksub':
            e = v - e
        elif op == 'addaff':
            e = v * y + e if left else e + v * y
        elif op == 'subaff':
            e = e - v * y
        elif op == 'affsub':
            e = v * y - e
        elif op == 'addnd':
            e = np.array(v) + e if left else e + np.array(v)
    return e


def rhs_obj(spec, d, value):
    """Right-hand side object with numeric value `value` at the pinned point; for 'affine' it
    is the free scalar t (so that the probe can optimise it)."""
    kind = spec['rhs']
    if kind == 'const':
        return float(value)
    if kind == 'ndarray':
        return np.array([float(value)]) if spec['seed'] % 2 else np.array(float(value))
    if kind == 'npfloat':
        return np.float64(value)
    return d['t']


def compare(spec, E, R):
    use, side = spec['use'], spec['side']
    if side == 'E-left':
        return E <= R if use == 'le' else E >= R if use == 'ge' else (E == R)
    # same mathematical statement written with R on the left
    return R >= E if use == 'le' else R <= E if use == 'ge' else (R == E)


def run_probe(spec, value_rhs, objective, ctx):
    """Builds one model; returns ('raised', stage, err) or ('solved', value or None)."""
    d = make_model(spec)
    m, x, y, t = d['m'], d['x'], d['y'], d['t']
    stage = 'expr'
    try:
        skip_ = int(spec.get('inside_E', 0)) if spec['family'] == 'epw' else \
            int(spec.get('inside_sum', 0))
        E = apply_chain({'chain': spec['chain'][skip_:]}, atom_expr(spec, d), d)
        if spec['use'] in ('le', 'ge', 'eq'):
            stage = 'compare'
            R = rhs_obj(spec, d, value_rhs)
            c = compare(spec, E, R)
            stage = 'st'
            m.st(c)
            if objective == 'min_t':
                m.min(t) if spec['family'] != 'epw' else m.minsup(t, d['amb'])
            elif objective == 'max_t':
                m.max(t) if spec['family'] != 'epw' else m.maxinf(t, d['amb'])
            else:
                m.min(0 * t) if spec['family'] != 'epw' else m.minsup(0 * t, d['amb'])
        else:
            stage = spec['use']
            if spec['family'] == 'epw':
                (m.minsup if spec['use'] == 'min' else m.maxinf)(E, d['amb'])
            else:
                (m.min if spec['use'] == 'min' else m.max)(E)
        stage = 'pin'
        m.st(x == np.array(spec['x0']))
        m.st(y == spec['y0'])
        m.st(t <= 1e3)
        m.st(t >= -1e3)
        stage = 'do_math'
        f = m.do_math()
        stage = 'solve'
        sname = {'L': 'def', 'Q': 'eco', 'X': 'eco'}.get(C.cone_class(f)[0], 'eco')
        C.solve(m, sname)
    except Exception as e:
        return ('raised', stage, '%s: %s' % (type(e).__name__, str(e)[:80]))
    if not C.optimal(m):
        st = str(getattr(m.solution, 'status', ''))
        if 'numerical' in st or 'Close' in st or 'Maximum' in st:
            return ('numerical', None, st)
        return ('solved', None, st)
    if 'Close' in str(getattr(m.solution, 'status', '')):
        return ('numerical', None, str(m.solution.status))
    return ('solved', float(m.get()), float(np.atleast_1d(t.get())[0]))


def run_case(spec, ctx):
    if spec['kind'] == 'bilinear':
        return run_bilinear(spec, ctx)
    s, w, k = calculus(spec)
    a0 = atom_value(spec)
    E0 = s * a0 + w * spec['y0'] + k
    curv = np.sign(s) * spec['curv']          # +1 convex, -1 concave, 0 affine
    use = spec['use']
    if use in ('le', 'min'):
        valid = curv >= 0
    elif use in ('ge', 'max'):
        valid = curv <= 0
    else:
        valid = curv == 0
    feats = {'front': spec['front'], 'family': spec['family'], 'atom': spec['atom'],
             'chain': [o['op'] for o in spec['chain']], 'use': use,
             'side': spec['side'] if use in ('le', 'ge', 'eq') else '-',
             'rhs': spec['rhs'] if use in ('le', 'ge', 'eq') else '-',
             'valid': bool(valid), 'curv': int(curv)}
    # first probe: the statement with a right-hand side that makes it true with slack / the
    # optimisation probe when the right-hand side is the free scalar t
    affine_rhs = spec['rhs'] == 'affine' and use in ('le', 'ge', 'eq')
    if use in ('le', 'ge', 'eq'):
        if affine_rhs:
            obj = 'min_t' if use == 'le' else 'max_t' if use == 'ge' else 'feas'
            r1 = run_probe(spec, None, obj, ctx)
        else:
            slack = 0.5 if use == 'le' else -0.5 if use == 'ge' else 0.0
            r1 = run_probe(spec, E0 + slack, 'feas', ctx)
    else:
        r1 = run_probe(spec, None, None, ctx)
    if r1[0] == 'numerical':
        ctx.count('solver_numerical')
        return {'status': 'skip', 'reason': 'solver numerical status', 'features': feats}
    feats['outcome'] = r1[0] + (':' + r1[1] if r1[0] == 'raised' else '')
    sig = '|'.join('%s=%s' % (kk, feats[kk]) for kk in sorted(feats))
    res = {'features': feats, 'sig': sig, 'nontrivial': True}
    early = ('expr', 'compare', 'st', 'min', 'max')
    if not valid:
        if r1[0] == 'raised' and r1[1] in early:
            ctx.count('rejected_nonconvex')
            res['status'] = 'held'
            return res
        res['status'] = 'violation'
        if r1[0] == 'raised':
            res['mechanism'] = 'late_rejection:%s:%s' % (spec['family'], r1[1])
            res['detail'] = {'what': 'non-convex use rejected only after it was handed to the '
                             'model', 'stage': r1[1], 'error': r1[2], 'curvature': int(curv)}
        else:
            res['mechanism'] = 'nonconvex_accepted:%s:%s:%s' % (
                spec['front'], spec['family'],
                (spec['side'] + ':' + spec['rhs']) if use in ('le', 'ge', 'eq') else use)
            res['detail'] = {'what': 'non-convex use accepted and compiled', 'curvature': int(curv),
                             'written': describe(spec, s, w, k), 'probe': list(r1[1:])}
        return res
    # valid use
    if r1[0] == 'raised':
        if r1[1] in early:
            ctx.count('overly_strict:' + spec['family'])
        else:
            ctx.count('late_loud_failure_on_valid_use:%s:%s' % (r1[1], r1[2].split(':')[0]))
        res['status'] = 'held'
        res['nontrivial'] = False
        return res
    ctx.count('accepted_convex_probed')
    tol = 2e-4 * (1 + abs(E0) + abs(s) * abs(a0))
    bad = None
    if use in ('min', 'max'):
        if r1[1] is None or abs(r1[1] - E0) > tol:
            bad = {'what': 'objective value at the pinned point differs from the written '
                   'expression', 'rsome': r1[1], 'written_value': E0}
    elif affine_rhs and use in ('le', 'ge'):
        if r1[1] is None or abs(r1[1] - E0) > tol:
            bad = {'what': 'constraint does not mean what was written: optimal bound differs',
                   'rsome_bound': r1[1], 'written_value': E0, 'status': r1[2]}
    elif affine_rhs:
        if r1[1] is None or abs(r1[2] - E0) > tol:
            bad = {'what': 'equality does not mean what was written', 'rsome_t': r1[2],
                   'written_value': E0}
    else:
        if r1[1] is None:
            bad = {'what': 'true statement reported infeasible', 'written_value': E0,
                   'status': r1[2]}
        elif use != 'eq' or True:
            # the same statement made false must be infeasible
            slack = -0.5 if use == 'le' else 0.5
            r2 = run_probe(spec, E0 + slack, 'feas', ctx)
            if r2[0] == 'numerical':
                ctx.count('solver_numerical')
            elif r2[0] == 'solved' and r2[1] is not None:
                bad = {'what': 'false statement accepted as feasible', 'written_value': E0,
                       'rhs': E0 + slack}
    if bad:
        bad['written'] = describe(spec, s, w, k)
        res.update({'status': 'violation', 'detail': bad,
                    'mechanism': 'wrong_meaning:%s:%s:%s' % (spec['front'], spec['family'],
                                                             spec['atom'])})
        return res
    res['status'] = 'held'
    return res


def describe(spec, s, w, k):
    return '%g*%s(x) + %g*y + %g  [%s %s, %s, chain=%s]' % (
        s, spec['atom'], w, k, spec['use'], spec['rhs'], spec['side'],
        [(o['op'], o['v'], 'L' if o['left'] else 'R') for o in spec['chain']])


def run_bilinear(spec, ctx):
    import rsome as rso
    from rsome import ro, dro
    which, front = spec['which'], spec['front']
    m = ro.Model() if front == 'ro' else dro.Model(2)
    x = m.dvar(3)
    y = m.dvar(3)
    z = m.rvar(3)
    u = m.rvar(3)
    stage = 'expr'
    try:
        if which == 'dec*dec':
            e = (x * y).sum()
        elif which == 'dec@dec':
            e = x @ y
        elif which == 'rand*rand':
            e = (z * u).sum()
        elif which == 'rand@rand':
            e = z @ u
        elif which == 'rule*rand':
            if front == 'ro':
                r = m.ldr(3)
                r.adapt(z)
                e = (r * z).sum()
            else:
                x.adapt(z)
                e = (x * z).sum()
        elif which == 'adaptive*rand':
            if front == 'ro':
                r = m.ldr(3)
                r.adapt(z)
                e = r @ z
            else:
                x.adapt(z)
                e = x @ z
        elif which in ('(rule+static)*rand', '(rule-static)@rand', 'rand*(2*rule+static-3)',
                       'E((rule+static)*rand)', '(static+rule)*rand', 'norm(rule+static)'):
            if front == 'ro':
                r = m.ldr(3)
                r.adapt(z)
            else:
                r = y
                r.adapt(z)
            if which == '(rule+static)*rand':
                e = ((r + x) * z).sum()
            elif which == '(static+rule)*rand':
                e = ((x + r) * z).sum()
            elif which == '(rule-static)@rand':
                e = (r - x) @ z
            elif which == 'rand*(2*rule+static-3)':
                e = (z * (2 * r + x - 3)).sum()
            elif which == 'norm(rule+static)':
                e = rso.norm(r + x)
            else:
                e = rso.E(((r + x) * z).sum()) if front == 'dro' else ((r + x) * z).sum()
        elif '(static,rule)' in which or '(rule,static)' in which or '(const,rule)' in which:
            if front == 'ro':
                r = m.ldr(3)
                r.adapt(z)
            else:
                r = y
                r.adapt(z)
            w6 = np.arange(1.0, 7.0)
            first, second = (x, r) if 'static,rule' in which else \
                (r, x) if 'rule,static' in which else (np.ones(3), r)
            if which.startswith('sumsqr'):
                e = rso.sumsqr(first, second)
            elif which.startswith('fnorm'):
                e = rso.fnorm(first, second)
            elif which.startswith('norm(concat'):
                e = rso.norm(rso.concat([first, second]))
            elif which.startswith('square'):
                e = rso.square(rso.rstack(first, second)).sum()
            elif which.startswith('quad'):
                e = rso.quad(rso.concat([first, second]), np.eye(6))
            else:
                zz = rso.concat([z, u]) if hasattr(rso, 'concat') else z
                st = rso.concat([first, second])
                e = st @ zz
        elif which == 'cvx*cvx':
            e = rso.norm(x) * rso.norm(y)
        elif which == 'cvx*aff':
            e = rso.norm(x) * y[0]
        else:
            e = rso.norm(x) @ y
        stage = 'compare'
        c = (e <= 1)
        stage = 'st'
        m.st(c)
        stage = 'do_math'
        if front == 'dro':
            amb = m.ambiguity() if False else None
        m.min(x.sum())
        m.do_math()
        stage = 'compiled'
    except Exception as e_:
        err = '%s: %s' % (type(e_).__name__, str(e_)[:60])
        feats = {'kind': 'bilinear', 'which': which, 'front': front, 'stage': stage}
        sig = '|'.join('%s=%s' % (kk, feats[kk]) for kk in sorted(feats))
        if stage in ('expr', 'compare', 'st'):
            ctx.count('bilinear_rejected')
            return {'status': 'held', 'features': feats, 'sig': sig, 'nontrivial': True,
                    'observed': {'refused_at': stage, 'error': err}}
        return {'status': 'violation', 'mechanism': 'bilinear_late:%s:%s' % (which, front),
                'detail': {'what': 'bilinear product rejected only at ' + stage, 'error': err},
                'features': feats, 'sig': sig, 'nontrivial': True}
    feats = {'kind': 'bilinear', 'which': which, 'front': front, 'stage': 'compiled'}
    return {'status': 'violation', 'mechanism': 'bilinear_accepted:%s:%s' % (which, front),
            'detail': {'what': 'bilinear product compiled'}, 'features': feats,
            'sig': str(feats), 'nontrivial': True}
