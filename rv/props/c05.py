"""C05 - array algebra on variables is NumPy's.

Differential monitor: a random expression program is executed twice, once on
RSOME objects and once on ndarrays holding random values of the variables.
Every node's shape and value (at 3 random assignments) must agree with NumPy;
after the whole program ran, every earlier node is re-evaluated (operand
aliasing).  Contracts on the sparse helper functions stay on throughout.
"""
import numpy as np
import scipy.sparse as sp

from rv import contracts

N_CASES = {'quick': 60000, 'thorough': 600000}
TIMEOUT = {'quick': 1500, 'thorough': 6 * 3600}
ANCHORS = ['subroutines:sparse_mul', 'subroutines:sp_matmul', 'subroutines:sp_lmatmul',
           'subroutines:sv_to_csr', 'subroutines:sp_trans',
           'lp:Affine.__getitem__', 'lp:Affine.sum', 'lp:Affine.__mul__',
           'lp:Affine.__matmul__', 'lp:Affine.__rmatmul__', 'lp:Affine.__add__',
           'lp:RoAffine.__getitem__', 'lp:RoAffine.__add__', 'lp:RoAffine.__mul__',
           'lp:RoAffine.__matmul__', 'lp:RoAffine.sum', 'lp:Affine.rand_to_roaffine',
           'lp:concat', 'lp:rstack', 'lp:cstack', 'lp:vec',
           'lp:Affine.diag', 'lp:Affine.tril', 'lp:Affine.triu', 'lp:Affine.trace']
FLOORS = {'judged': {'quick': 12500, 'thorough': 100000}, 'nontrivial': 200,
          'counters': {'contract:sparse_mul': 100, 'contract:sp_matmul': 50,
                       'contract:sp_lmatmul': 50, 'contract:sv_to_csr': 100,
                       'contract:sp_trans': 20}}
RULE = ('random expression programs (leaves dvar/rvar/ldr of ro and dro front ends, shapes '
        '0-d..4-d; ops + - * @ neg T reshape flatten sum getitem diag tril triu trace concat '
        'rstack cstack vec with dense/int/bool/float32/0-d/scalar/sparse constants, both '
        'operand orders, decision x random products); every node compared with NumPy at 3 '
        'assignments, all nodes re-evaluated at the end. Non-trivial: NumPy accepts the '
        'whole program, result size > 1 and at least one broadcasting/indexing/matmul step; '
        'distinct by (front end, op sequence, kinds, rank pattern)')
ASSUMPTIONS = ['NumPy is the reference semantics', 'leaves are evaluated from their own '
               'coefficient data (leaf expansion is covered by C12/C13)']

NX = 2048


def setup_worker(ctx):
    contracts.install_algebra(ctx)
    contracts.install_helpers(ctx, ['add_linear', 'index_array'])


# ------------------------------------------------------------------ generation

def _shape(rng, maxnd, allow0=True):
    nd = int(rng.integers(0 if allow0 else 1, maxnd + 1))
    return [1 if rng.random() < 0.2 else int(rng.integers(1, 4)) for _ in range(nd)]


def _const(rng, shape, allow_sparse=False):
    kinds = ['f8', 'f8', 'f8', 'i8', 'f4', 'bool']
    if len(shape) == 0:
        kinds += ['pyfloat', 'pyint', 'npfloat']
    if allow_sparse and len(shape) == 2:
        kinds += ['sparse', 'sparse']
    k = kinds[int(rng.integers(len(kinds)))]
    if k in ('f8', 'f4', 'pyfloat', 'npfloat', 'sparse'):
        data = np.round(rng.uniform(-2, 2, size=shape), 3)
        if k == 'sparse' or rng.random() < 0.3:
            data = data * (rng.random(size=shape) < 0.6)
    elif k in ('i8', 'pyint'):
        data = rng.integers(-3, 4, size=shape)
    else:
        data = rng.random(size=shape) < 0.6
    return {'k': k, 'shape': list(shape), 'data': np.asarray(data).tolist()}


def make_const(c):
    k = c['k']
    if k == 'pyfloat':
        return float(c['data'])
    if k == 'pyint':
        return int(c['data'])
    if k == 'npfloat':
        return np.float64(c['data'])
    dt = {'f8': float, 'f4': np.float32, 'i8': np.int64, 'bool': bool, 'sparse': float}[k]
    a = np.array(c['data'], dtype=dt).reshape(c['shape'])
    if k == 'sparse':
        # csr / csc / coo by the content; the coo form stores some entries in two parts (repeated
        # positions are summed, as every scipy operation and toarray() do) and explicit zeros
        form = int(abs(a).sum() * 1000) % 4
        if form == 0:
            return sp.csr_matrix(a)
        if form == 1:
            return sp.csc_matrix(a)
        r_, c_ = np.nonzero(a)
        v_ = a[r_, c_]
        half = np.round(v_ / 2, 3)
        rows = np.concatenate([r_, r_, [0]])
        cols = np.concatenate([c_, c_, [0]])
        data = np.concatenate([half, v_ - half, [0.0]])
        m_ = sp.coo_matrix((data, (rows, cols)), shape=a.shape)
        return m_ if form == 2 else sp.csr_matrix((data, (rows, cols)), shape=a.shape)
    return a


def np_const(c):
    v = make_const(c)
    if sp.issparse(v):
        return v.toarray()
    return v


def _rand_index(rng, shape):
    nd = len(shape)
    if nd == 0:
        return [{'t': rstr(rng, ['ellipsis', 'none'])}]
    if rng.random() < 0.07:
        mask = rng.random(size=shape) < 0.5
        return [{'t': 'fullmask', 'v': mask.tolist()}]
    items = []
    n_adv = 0
    used_ell = False
    ax = 0
    while ax < nd:
        n = shape[ax]
        r = rng.random()
        if r < 0.06 and not used_ell:
            items.append({'t': 'ellipsis'})
            used_ell = True
            skip = int(rng.integers(0, nd - ax + 1))
            ax += skip
            continue
        if r < 0.12:
            items.append({'t': 'none'})
            continue
        if r < 0.40:
            items.append({'t': 'int', 'v': int(rng.integers(-n, n))})
        elif r < 0.75:
            a = [None, int(rng.integers(-n - 1, n + 1))][int(rng.integers(2))]
            b = [None, int(rng.integers(-n - 1, n + 2))][int(rng.integers(2))]
            st = [None, 1, 2, -1, -2][int(rng.integers(5))]
            items.append({'t': 'slice', 'v': [a, b, st]})
        elif r < 0.90 and n_adv == 0:
            ln = int(rng.integers(1, 4))
            items.append({'t': 'list', 'v': [int(rng.integers(-n, n)) for _ in range(ln)]})
            n_adv += 1
        elif n_adv == 0:
            items.append({'t': 'mask', 'v': (rng.random(size=n) < 0.6).tolist()})
            n_adv += 1
        else:
            items.append({'t': 'slice', 'v': [None, None, None]})
        ax += 1
        if rng.random() < 0.25:
            break
    return items


def make_index(items):
    out = []
    for it in items:
        t = it['t']
        if t == 'fullmask':
            return np.array(it['v'], dtype=bool)
        if t == 'int':
            out.append(it['v'])
        elif t == 'slice':
            out.append(slice(*it['v']))
        elif t == 'list':
            out.append(list(it['v']))
        elif t == 'mask':
            out.append(np.array(it['v'], dtype=bool))
        elif t == 'ellipsis':
            out.append(Ellipsis)
        elif t == 'none':
            out.append(None)
    if len(out) == 1:
        return out[0]
    return tuple(out)


def rstr(rng, choices):
    return choices[int(rng.integers(len(choices)))]


def np_apply(node, vals):
    """Apply node's op on numpy values of its args (vals: list by node id)."""
    op = node['op']
    a = [vals[i] for i in node.get('args', [])]
    p = node.get('p')
    if op == 'neg':
        return -a[0]
    if op == 'T':
        return a[0].T
    if op == 'reshape':
        return a[0].reshape(tuple(p))
    if op == 'flatten':
        return a[0].flatten()
    if op == 'sum':
        ax = tuple(p) if isinstance(p, list) else p
        return a[0].sum(axis=ax)
    if op == 'getitem':
        return a[0][make_index(p)]
    if op == 'diag':
        if a[0].ndim != 2:
            raise ValueError('2-D only')
        if p[1]:
            m = np.zeros(a[0].shape, dtype=bool)
            k = p[0]
            r, c = np.indices(a[0].shape)
            m[(c - r) == k] = True
            return np.where(m, a[0], 0.0)
        return np.diag(a[0], p[0])
    if op == 'tril':
        if a[0].ndim != 2:
            raise ValueError('2-D only')
        return np.tril(a[0], p)
    if op == 'triu':
        if a[0].ndim != 2:
            raise ValueError('2-D only')
        return np.triu(a[0], p)
    if op == 'trace':
        if a[0].ndim != 2:
            raise ValueError('2-D only')
        return np.trace(a[0])
    if op in ('addc', 'raddc', 'subc', 'rsubc', 'mulc', 'rmulc', 'matmulc', 'rmatmulc'):
        c = np_const(p)
        if isinstance(c, np.ndarray) and c.dtype == bool:
            c = c.astype(float)
        return {'addc': lambda: a[0] + c, 'raddc': lambda: c + a[0],
                'subc': lambda: a[0] - c, 'rsubc': lambda: c - a[0],
                'mulc': lambda: a[0] * c, 'rmulc': lambda: c * a[0],
                'matmulc': lambda: a[0] @ c, 'rmatmulc': lambda: c @ a[0]}[op]()
    if op == 'add':
        return a[0] + a[1]
    if op == 'sub':
        return a[0] - a[1]
    if op == 'mul':
        return a[0] * a[1]
    if op == 'matmul':
        return a[0] @ a[1]
    if op == 'concat':
        if any(np.ndim(x) == 0 for x in a):
            raise ValueError('0-d')
        return np.concatenate(a, axis=p)
    if op == 'rstack':
        rows = []
        pos = 0
        for n in p:
            grp = a[pos:pos + abs(n)]
            pos += abs(n)
            rows.append(np.concatenate(grp, axis=1) if n > 0 else grp[0])
        return np.concatenate(rows, axis=0)
    if op == 'cstack':
        cols = []
        pos = 0
        for n in p:
            grp = a[pos:pos + abs(n)]
            pos += abs(n)
            cols.append(np.concatenate(grp, axis=0) if n > 0 else grp[0])
        return np.concatenate(cols, axis=1)
    if op == 'vec':
        for x in a:
            if np.size(x) != 1:
                raise ValueError('size')
        return np.concatenate([np.reshape(x, (1,)) for x in a])
    raise KeyError(op)


CONST_OPS = ('addc', 'raddc', 'subc', 'rsubc', 'mulc', 'rmulc', 'matmulc', 'rmatmulc')


def join_kind(k1, k2):
    if k1 == k2:
        return k1
    return 'bi'


def tries_forced_reshape(node, nodes):
    a = node['args'][0]
    return any(n.get('args') and n['args'][0] == a and n['op'] in ('getitem', 'sum', 'trace',
                                                                   'diag') for n in nodes[:-1])


def gen_case(rng, idx, tier):
    front = 'ro' if rng.random() < 0.6 else 'dro'
    if rng.random() < 0.03:
        # template: batch matrix product whose batch dimensions broadcast in both directions
        a, b, m_, k_, n_ = (int(rng.integers(2, 4)) for _ in range(5))
        kind = 'dec' if rng.random() < 0.6 else 'rand'
        left = rng.random() < 0.5
        xs = [a, 1, m_, k_] if rng.random() < 0.5 else [1, a, m_, k_]
        bs = [1 if xs[0] > 1 else b, b if xs[1] == 1 else 1]
        if left:
            cshape = bs + [k_, n_]
            res = [max(xs[0], bs[0]), max(xs[1], bs[1]), m_, n_]
        else:
            cshape = bs + [n_, m_]
            res = [max(xs[0], bs[0]), max(xs[1], bs[1]), n_, k_]
        if rng.random() < 0.3:
            cshape = cshape[1:] if cshape[0] == 1 else cshape
        decl = {'dvars': [xs] if kind == 'dec' else [[1]], 'rvars': [xs] if kind == 'rand' else [[1]],
                'ldrs': []}
        nodes = [{'op': 'dvar', 'p': 0, 'shape': decl['dvars'][0], 'kind': 'dec'},
                 {'op': 'rvar', 'p': 0, 'shape': decl['rvars'][0], 'kind': 'rand'}]
        src = 0 if kind == 'dec' else 1
        c = _const(rng, cshape)
        if c['k'] == 'bool':
            c = {'k': 'f8', 'shape': cshape,
                 'data': np.round(rng.uniform(-2, 2, cshape), 3).tolist()}
        node = {'op': 'matmulc' if left else 'rmatmulc', 'args': [src], 'p': c, 'kind': kind}
        shp = np.asarray(np_apply(node, [np.zeros(n['shape']) for n in nodes])).shape
        node['shape'] = list(shp)
        nodes.append(node)
        if rng.random() < 0.5:
            nodes.append({'op': 'sum', 'args': [2], 'p': int(rng.integers(-4, 4)), 'kind': kind,
                          'shape': list(np.zeros(shp).sum(axis=0).shape)})
            nodes[-1]['shape'] = list(np.zeros(shp).sum(axis=nodes[-1]['p']).shape)
        return {'front': front, 'decl': decl, 'nodes': nodes, 'nleaf': 2,
                'vseed': int(rng.integers(1 << 30))}
    maxnd = 4 if (tier != 'quick' or rng.random() < 0.25) else 3
    maxops = 5 if tier == 'quick' else 8
    nodes = []
    leaves = []
    nd = int(rng.integers(1, 4))
    nr = int(rng.integers(1, 3))
    decl = {'dvars': [_shape(rng, maxnd) for _ in range(nd)],
            'rvars': [_shape(rng, 2) for _ in range(nr)], 'ldrs': []}
    if front == 'ro' and rng.random() < 0.4:
        shp = _shape(rng, 2)
        adapt = []
        for j in range(nr):
            if rng.random() < 0.7:
                adapt.append(j)
        decl['ldrs'].append({'shape': shp, 'adapt': adapt})
    for i, s in enumerate(decl['dvars']):
        nodes.append({'op': 'dvar', 'p': i, 'shape': s, 'kind': 'dec'})
    for i, s in enumerate(decl['rvars']):
        nodes.append({'op': 'rvar', 'p': i, 'shape': s, 'kind': 'rand'})
    for i, l in enumerate(decl['ldrs']):
        nodes.append({'op': 'ldr', 'p': i, 'shape': l['shape'],
                      'kind': 'bi' if l['adapt'] else 'dec'})
    nleaf = len(nodes)
    shapes = [np.zeros(n['shape']) for n in nodes]
    nops = int(rng.integers(1, maxops + 1))
    want_reject = rng.random() < 0.04
    tries = 0
    forced = []
    while len(nodes) - nleaf < nops and tries < 60:
        tries += 1
        live = [i for i, n in enumerate(nodes) if not n.get('np_raises')
                and shapes[i].size > 0]
        # prefer recent nodes for depth
        if rng.random() < 0.6 and len(nodes) > nleaf:
            i0 = live[-1]
        else:
            i0 = live[int(rng.integers(len(live)))]
        r = rng.random()
        if forced:
            # cache probe: a node that was already read (indexed / summed) is reshaped and
            # read again through the new shape
            fop, fi = forced.pop(0)
            if fi in live:
                i0 = fi
                r = 0.12 if fop == 'reshape' else 0.3
        n0 = nodes[i0]
        s0 = list(shapes[i0].shape)
        kind = n0['kind']
        node = None
        if r < 0.05:
            node = {'op': 'neg', 'args': [i0], 'kind': kind}
        elif r < 0.10:
            node = {'op': 'T', 'args': [i0], 'kind': kind}
        elif r < 0.17:
            size = int(np.prod(s0))
            cands = [[size], [1, size], [size, 1], [-1], []]
            for d in (2, 3):
                if size % d == 0:
                    cands += [[d, size // d], [size // d, d], [d, -1]]
            node = {'op': 'reshape', 'args': [i0], 'p': rstr(rng, cands), 'kind': kind}
        elif r < 0.20:
            node = {'op': 'flatten', 'args': [i0], 'kind': kind}
        elif r < 0.29:
            ndim = len(s0)
            cands = [None]
            if ndim:
                cands += list(range(-ndim, ndim))
            if ndim >= 2:
                cands += [[0, 1], [0, -1], [-1, -2]]
            node = {'op': 'sum', 'args': [i0], 'p': rstr(rng, cands), 'kind': kind}
        elif r < 0.45:
            node = {'op': 'getitem', 'args': [i0], 'p': _rand_index(rng, s0), 'kind': kind}
        elif r < 0.50 and len(s0) == 2 and kind != 'bi':
            which = rstr(rng, ['diag', 'tril', 'triu', 'trace'])
            k = int(rng.integers(-2, 3))
            if which == 'diag':
                p = [k, bool(rng.random() < 0.4)]
            elif which == 'trace':
                p = None
            else:
                p = k
            node = {'op': which, 'args': [i0], 'p': p, 'kind': kind}
        elif r < 0.72:
            op = rstr(rng, ['addc', 'raddc', 'subc', 'rsubc', 'mulc', 'rmulc',
                            'matmulc', 'rmatmulc', 'mulc', 'rmulc'])
            if op in ('matmulc', 'rmatmulc'):
                if len(s0) == 0:
                    continue
                inner = s0[-1] if op == 'matmulc' else (s0[-2] if len(s0) >= 2 else s0[0])
                cs = rstr(rng, [[inner], [inner, int(rng.integers(1, 4))]]) \
                    if op == 'matmulc' else rstr(rng, [[inner], [int(rng.integers(1, 4)), inner]])
                if rng.random() < (0.7 if len(s0) >= 4 else 0.25):
                    cs = [int(rng.integers(1, 3))] + (cs if len(cs) == 2 else [1] + cs
                                                      if op == 'rmatmulc' else cs + [1])
                    if rng.random() < 0.5 and len(s0) >= 3:
                        cs[0] = s0[-3]
                    if rng.random() < 0.5 and len(s0) >= 3:
                        # batch dimensions that broadcast in both directions
                        lead = [int(rng.integers(1, 4)) if d == 1 else (1 if rng.random() < 0.5
                                                                        else d)
                                for d in s0[:-2]]
                        cs = lead + cs[-2:]
                        if rng.random() < 0.3:
                            cs = [int(rng.integers(2, 4))] + cs
            else:
                # broadcast compatible shape, either direction
                mode = rng.random()
                if mode < 0.4:
                    cs = list(s0)
                elif mode < 0.55:
                    cs = []
                elif mode < 0.8:
                    cs = [d if rng.random() < 0.5 else 1 for d in s0]
                    cs = cs[int(rng.integers(0, len(cs) + 1)):]
                else:
                    cs = [int(rng.integers(1, 4)) for _ in range(int(rng.integers(1, 3)))] + \
                         [d if d != 1 else int(rng.integers(1, 4)) for d in s0]
            c = _const(rng, cs, allow_sparse=True)
            node = {'op': op, 'args': [i0], 'p': c, 'kind': kind}
        elif r < 0.86:
            i1 = live[int(rng.integers(len(live)))]
            n1 = nodes[i1]
            op = rstr(rng, ['add', 'sub', 'add', 'mul', 'matmul'])
            if op in ('mul', 'matmul'):
                if {kind, n1['kind']} != {'dec', 'rand'}:
                    op = 'add'
            k2 = 'bi' if op in ('mul', 'matmul') else join_kind(kind, n1['kind'])
            node = {'op': op, 'args': [i0, i1], 'kind': k2}
        else:
            which = rstr(rng, ['concat', 'concat', 'rstack', 'cstack', 'vec'])
            same = [i for i in live if nodes[i]['kind'] == kind or which == 'concat']
            if which == 'concat':
                cnt = int(rng.integers(2, 4))
                args = [i0] + [live[int(rng.integers(len(live)))] for _ in range(cnt - 1)]
                # make shapes compatible by picking nodes of same ndim
                args = [a for a in args if shapes[a].ndim == len(s0) and len(s0) > 0]
                if len(args) < 2:
                    continue
                kk = nodes[args[0]]['kind']
                for a in args[1:]:
                    kk = join_kind(kk, nodes[a]['kind'])
                if kk == 'bi' or len({nodes[a]['kind'] for a in args}) > 1:
                    continue
                node = {'op': 'concat', 'args': args,
                        'p': int(rng.integers(-len(s0), len(s0))), 'kind': kk}
            elif which in ('rstack', 'cstack'):
                if len(s0) != 2 or kind == 'bi':
                    continue
                two = [i for i in live if shapes[i].ndim == 2 and nodes[i]['kind'] == kind]
                if not two:
                    continue
                groups = []
                args = []
                for _ in range(int(rng.integers(1, 3))):
                    g = int(rng.integers(1, 3))
                    if rng.random() < 0.3:
                        args.append(two[int(rng.integers(len(two)))])
                        groups.append(-1)
                    else:
                        args += [two[int(rng.integers(len(two)))] for _ in range(g)]
                        groups.append(g)
                node = {'op': which, 'args': args, 'p': groups, 'kind': kind}
            else:
                ones = [i for i in live if shapes[i].size == 1 and nodes[i]['kind'] == kind]
                if not ones or kind == 'bi':
                    continue
                args = [ones[int(rng.integers(len(ones)))] for _ in range(int(rng.integers(1, 4)))]
                node = {'op': 'vec', 'args': args, 'kind': kind}
        if node is None:
            continue
        try:
            res = np_apply(node, shapes)
            res = np.asarray(res, dtype=float)
            node['shape'] = list(res.shape)
            if res.size > 200:
                continue
            nodes.append(node)
            shapes.append(np.zeros(res.shape))
            if node['op'] in ('getitem', 'sum', 'trace', 'diag') and not forced and \
                    rng.random() < 0.35 and shapes[node['args'][0]].size > 1:
                forced += [('reshape', node['args'][0])]
            elif node['op'] == 'reshape' and tries_forced_reshape(node, nodes) and \
                    rng.random() < 0.8:
                forced += [('getitem', len(nodes) - 1)]
        except Exception:
            if want_reject:
                node['np_raises'] = True
                node['shape'] = None
                nodes.append(node)
                shapes.append(None)
                want_reject = False
            continue
    return {'front': front, 'decl': decl, 'nodes': nodes, 'nleaf': nleaf,
            'vseed': int(rng.integers(1 << 30))}


# ------------------------------------------------------------------ execution

def rs_eval(obj, xvec, zvec):
    from rsome import lp
    if isinstance(obj, (lp.DecRule, lp.DecRuleSub, lp.Vars)):
        obj = obj.to_affine()
    if isinstance(obj, lp.RoAffine):
        R = obj.raffine
        Rv = np.asarray(R.linear @ xvec[:R.linear.shape[1]]).reshape(R.const.shape) + R.const
        nr = Rv.shape[1]
        a = obj.affine
        if isinstance(a, lp.Affine):
            av = np.asarray(a.linear @ xvec[:a.linear.shape[1]]).reshape(a.shape) + a.const
        else:
            av = np.asarray(a)
        return tuple(obj.shape), (Rv @ zvec[:nr]).reshape(obj.shape) + av
    if isinstance(obj, lp.Affine):
        vec = zvec if obj.model.mtype == 'S' else xvec
        if obj.linear.shape[0] != int(np.prod(obj.const.shape)):
            raise Inconsistent('linear has %d rows, const has shape %s'
                               % (obj.linear.shape[0], obj.const.shape))
        v = np.asarray(obj.linear @ vec[:obj.linear.shape[1]]).reshape(obj.const.shape) + obj.const
        return tuple(obj.shape), v
    if isinstance(obj, np.ndarray):
        return obj.shape, obj
    raise TypeError('cannot evaluate %s' % type(obj).__name__)


class Inconsistent(Exception):
    pass


def rs_apply(node, objs, lpmod):
    op = node['op']
    a = [objs[i] for i in node.get('args', [])]
    p = node.get('p')
    if op == 'neg':
        return -a[0]
    if op == 'T':
        return a[0].T
    if op == 'reshape':
        return a[0].reshape(tuple(p))
    if op == 'flatten':
        return a[0].flatten()
    if op == 'sum':
        ax = tuple(p) if isinstance(p, list) else p
        return a[0].sum(axis=ax)
    if op == 'getitem':
        return a[0][make_index(p)]
    if op == 'diag':
        return a[0].diag(p[0], p[1])
    if op == 'tril':
        return a[0].tril(p)
    if op == 'triu':
        return a[0].triu(p)
    if op == 'trace':
        return a[0].trace()
    if op in ('addc', 'raddc', 'subc', 'rsubc', 'mulc', 'rmulc', 'matmulc', 'rmatmulc'):
        c = make_const(p)
        return {'addc': lambda: a[0] + c, 'raddc': lambda: c + a[0],
                'subc': lambda: a[0] - c, 'rsubc': lambda: c - a[0],
                'mulc': lambda: a[0] * c, 'rmulc': lambda: c * a[0],
                'matmulc': lambda: a[0] @ c, 'rmatmulc': lambda: c @ a[0]}[op]()
    if op == 'add':
        return a[0] + a[1]
    if op == 'sub':
        return a[0] - a[1]
    if op == 'mul':
        return a[0] * a[1]
    if op == 'matmul':
        return a[0] @ a[1]
    if op == 'concat':
        return lpmod.concat(a, axis=p)
    if op in ('rstack', 'cstack'):
        groups = []
        pos = 0
        for n in p:
            grp = a[pos:pos + abs(n)]
            pos += abs(n)
            groups.append(list(grp) if n > 0 else grp[0])
        return (lpmod.rstack if op == 'rstack' else lpmod.cstack)(*groups)
    if op == 'vec':
        return lpmod.vec(*a)
    raise KeyError(op)


def run_case(spec, ctx):
    from rsome import ro, dro
    from rsome import lp as lpmod
    decl = spec['decl']
    front = spec['front']
    m = ro.Model() if front == 'ro' else dro.Model(int(1 + spec['vseed'] % 3))
    dv = [m.dvar(tuple(s)) for s in decl['dvars']]
    rv = [m.rvar(tuple(s)) for s in decl['rvars']]
    ld = []
    for l in decl['ldrs']:
        y = m.ldr(tuple(l['shape']))
        for j in l['adapt']:
            y.adapt(rv[j])
        ld.append(y)
    vr = np.random.default_rng(spec['vseed'])
    pts = [(vr.uniform(-2, 2, NX), vr.uniform(-2, 2, NX)) for _ in range(3)]
    nodes = spec['nodes']
    objs = []
    npvals = [[] for _ in pts]
    status = 'held'
    detail = None
    mech = None
    rs_raised = 0
    accepted_reject = None
    ops = []
    nontrivial_step = False

    def leaf_np(n, pt):
        xvec, zvec = pt
        if n['op'] == 'dvar':
            v = dv[n['p']]
            return xvec[v.first:v.first + v.size].reshape(v.shape).copy()
        if n['op'] == 'rvar':
            v = rv[n['p']]
            return zvec[v.first:v.first + v.size].reshape(v.shape).copy()
        return rs_eval(ld[n['p']], xvec, zvec)[1]

    dead = set()
    for i, n in enumerate(nodes):
        if i < spec['nleaf']:
            objs.append(dv[n['p']] if n['op'] == 'dvar' else rv[n['p']] if n['op'] == 'rvar'
                        else ld[n['p']])
            for k, pt in enumerate(pts):
                npvals[k].append(leaf_np(n, pt))
            continue
        if any(a in dead for a in n.get('args', [])):
            objs.append(None)
            for k in range(len(pts)):
                npvals[k].append(None)
            dead.add(i)
            continue
        np_ok = True
        try:
            vals = [np.asarray(np_apply(n, npvals[k]), dtype=float) for k in range(len(pts))]
        except Exception:
            np_ok = False
            vals = [None] * len(pts)
        try:
            contracts.LAST_BROKEN.clear()
            o = rs_apply(n, objs, lpmod)
            if isinstance(o, (lpmod.DecRule, lpmod.DecRuleSub, lpmod.Vars)):
                o = o.to_affine()
            if o is None or o is NotImplemented:
                raise TypeError('operation returned %r' % (o,))
            rs_ok = True
        except contracts.ContractBroken as e:
            return {'status': 'violation', 'mechanism': 'contract:' + e.name,
                    'detail': {'node': i, 'op': n['op'], 'msg': str(e)[:300]},
                    'sig': 'contract', 'nontrivial': True}
        except Exception as e:
            rs_ok = False
            o = None
            err = type(e).__name__
        ops.append(n['op'])
        if not rs_ok:
            rs_raised += 1
            ctx.count('rsome_raises:' + ('np_rejects_too' if not np_ok else n['op']))
            objs.append(None)
            for k in range(len(pts)):
                npvals[k].append(None)
            dead.add(i)
            continue
        if not np_ok:
            # RSOME accepted what NumPy rejects
            try:
                shp, _ = rs_eval(o, *pts[0])
            except Exception:
                shp = None
            accepted_reject = {'node': i, 'op': n['op'], 'p': n.get('p'), 'rs_shape': shp}
            status = 'violation'
            mech = 'accepts_numpy_rejects:' + n['op']
            detail = accepted_reject
            break
        objs.append(o)
        for k in range(len(pts)):
            npvals[k].append(vals[k])
        if n['op'] in ('getitem', 'matmulc', 'rmatmulc', 'matmul', 'mul', 'sum', 'concat',
                       'rstack', 'cstack', 'diag', 'tril', 'triu') or \
                (n['op'] in CONST_OPS and list(n['p']['shape']) != list(
                    np.shape(npvals[0][n['args'][0]]))):
            nontrivial_step = True
        bad = compare(o, vals, pts)
        if bad:
            status = 'violation'
            mech = 'value:' + n['op'] if bad[0] == 'value' else bad[0] + ':' + n['op']
            detail = {'node': i, 'op': n['op'], 'p': n.get('p'), 'what': bad,
                      'arg_kinds': [nodes[a]['kind'] for a in n.get('args', [])],
                      'arg_shapes': [nodes[a]['shape'] for a in n.get('args', [])]}
            break
    if status == 'held':
        # re-evaluate every node: building later nodes must not have changed earlier ones
        for i, n in enumerate(nodes):
            if i in dead or i >= len(objs) or objs[i] is None:
                continue
            bad = compare(objs[i], [npvals[k][i] for k in range(len(pts))], pts)
            if bad:
                status = 'violation'
                mech = 'operand_changed_later:' + n['op']
                detail = {'node': i, 'op': n['op'], 'what': bad,
                          'later_ops': [x['op'] for x in nodes[i + 1:]]}
                break
    final = nodes[-1]
    size = int(np.prod(final['shape'])) if final.get('shape') is not None else 0
    kinds = ''.join(sorted({n['kind'][0] for n in nodes}))
    sig = '%s|%s|%s|%s' % (front, '.'.join(ops), kinds,
                           '.'.join(str(len(n['shape'])) if n.get('shape') is not None else 'x'
                                    for n in nodes[spec['nleaf']:]))
    return {'status': status, 'mechanism': mech, 'detail': detail, 'sig': sig,
            'nontrivial': bool(status == 'violation' or
                               (size > 1 and nontrivial_step and rs_raised == 0)),
            'features': {'front': front, 'ops': sorted(set(ops)), 'final_kind': final['kind'],
                         'final_ndim': len(final['shape']) if final.get('shape') is not None
                         else 'np_raises', 'rs_raised': rs_raised}}


def compare(o, vals, pts):
    for k, pt in enumerate(pts):
        try:
            shp, v = rs_eval(o, *pt)
        except Inconsistent as e:
            return ['inconsistent_object', str(e)]
        want = vals[k]
        if tuple(shp) != tuple(np.shape(want)):
            return ['shape', list(shp), list(np.shape(want))]
        if tuple(np.shape(v)) != tuple(np.shape(want)):
            return ['shape_const', list(np.shape(v)), list(np.shape(want))]
        if not np.allclose(v, want, rtol=1e-9, atol=1e-9):
            return ['value', float(np.max(np.abs(np.asarray(v) - want)))]
    return None
