"""Deterministic models (no random variables): neutral spec, RSOME build through
the ro or dro front end with randomised spellings, NumPy oracle."""
import itertools

import numpy as np
from scipy.optimize import linprog, minimize

from rv import atoms as AT
from rv.common import user_array, digest as _digest


def _vec(rng, n, dens=0.7, scale=2.0):
    v = np.round(rng.uniform(-scale, scale, n), 2)
    return v * (rng.random(n) < dens)


def gen(rng, tier='quick', cones='LQX', ints=True, pinned=False, atom=None, front=None,
        max_cvx=3):
    """cones: which atom classes may appear.  pinned=True builds the encoding
    test  min/max t  s.t. mult*atom(M x0 + v) <= t  with x pinned by equalities."""
    big = tier == 'thorough'
    front = front or ('ro' if rng.random() < 0.6 else 'dro')
    pool = []
    if 'L' in cones:
        pool += AT.LP_ATOMS
    if 'Q' in cones:
        pool += AT.SOC_ATOMS
    if 'X' in cones:
        pool += AT.EXP_ATOMS
    nx = int(rng.integers(1, 5 if big else 4))
    use_int = ints and not pinned and (rng.random() < 0.3 or ints == 'force')
    blocks = []
    left = nx
    while left > 0:
        k = int(rng.integers(1, left + 1))
        vt = 'C'
        if use_int and rng.random() < (0.85 if ints == 'force' else 0.6):
            vt = 'B' if rng.random() < 0.5 else 'I'
        blocks.append({'n': k, 'vtype': vt})
        left -= k
    vt_all = np.array(sum([[b['vtype']] * b['n'] for b in blocks], []))
    has_int = bool(np.any(vt_all != 'C'))
    if has_int:
        pool = [a for a in pool if AT.ATOMS[a]['cone'] == 'L'] or AT.LP_ATOMS
        if 'Q' in cones and rng.random() < 0.25:
            pool = pool + ['norm2', 'sumsqr']
    M_box = float(np.round(rng.uniform(1.5, 4.0), 1))
    # feasible point
    xstar = np.round(rng.uniform(-0.6, 0.6, nx) * M_box, 2)
    lo = -M_box * np.ones(nx)
    hi = M_box * np.ones(nx)
    for i in range(nx):
        if vt_all[i] == 'B':
            xstar[i] = float(rng.integers(0, 2))
            lo[i], hi[i] = 0, 1
            r = rng.random()
            if r < 0.15:
                hi[i] = xstar[i] = 0.0      # user bound b <= 0
            elif r < 0.3:
                lo[i] = xstar[i] = 1.0      # user bound b >= 1
        elif vt_all[i] == 'I':
            a = int(rng.integers(-3, 3))
            w = int(rng.integers(1, 4))
            lo[i], hi[i] = a, a + w
            xstar[i] = float(rng.integers(a, a + w + 1))
    bounds = []
    for i in range(nx):
        style = 'obj' if rng.random() < 0.6 else 'row'
        r = rng.random()
        if vt_all[i] == 'C' and r < 0.12:
            lo[i] = 0.0
            xstar[i] = abs(xstar[i])
        elif vt_all[i] == 'C' and r < 0.2:
            hi[i] = 0.0
            xstar[i] = -abs(xstar[i])
        bounds.append({'lo': float(lo[i]), 'hi': float(hi[i]), 'style': style})
    spec = {'front': front, 'blocks': blocks, 'nx': nx, 'bounds': bounds, 'lin': [], 'cvx': [],
            'special': [], 'xstar': xstar.tolist(), 'spell': int(rng.integers(1 << 30)),
            'pinned': bool(pinned)}
    if pinned:
        return _gen_pinned(rng, spec, pool, atom, tier)
    # linear rows in array form
    for _ in range(int(rng.integers(0, 3))):
        k = int(rng.integers(1, 4))
        A = np.round(rng.uniform(-2, 2, (k, nx)), 2) * (rng.random((k, nx)) < 0.7)
        sense = ['le', 'ge', 'eq'][int(rng.integers(3))] if not has_int else \
            ['le', 'ge'][int(rng.integers(2))]
        if sense == 'eq':
            k = 1
            A = A[:1]
            if not A.any():
                A[0, int(rng.integers(nx))] = 1.0
            b = A @ xstar
        elif sense == 'le':
            b = A @ xstar + np.round(rng.uniform(0.05, 1.0, k), 2)
        else:
            b = A @ xstar - np.round(rng.uniform(0.05, 1.0, k), 2)
        spec['lin'].append({'A': A.tolist(), 'sense': sense, 'b': np.round(b, 6).tolist()})
    only_lin = ints == 'force' and bool(np.any(vt_all == 'C'))
    for _ in range(0 if only_lin else int(rng.integers(1, max_cvx + 1))):
        a = atom if atom else pool[int(rng.integers(len(pool)))]
        spec['cvx'].append(_gen_cvx(rng, a, nx, xstar))
    if not has_int and rng.random() < 0.25 and ('Q' in cones or 'X' in cones):
        sp_ = _gen_special(rng, nx, xstar, cones)
        if sp_:
            spec['special'].append(sp_)
    # objective pushes against the constraints
    sense = 'min' if rng.random() < 0.5 else 'max'
    c = np.round(rng.uniform(-2, 2, nx), 2)
    obj = {'sense': sense, 'c': c.tolist(), 'k': float(np.round(rng.uniform(-1, 1), 2)),
           'cvx': None, 'pieces': None}
    r = rng.random()
    want = 1 if sense == 'min' else -1
    cands = [a for a in pool if AT.ATOMS[a]['curv'] == want and AT.ATOMS[a]['kind'] == 'scalar']
    if only_lin:
        pass
    elif r < 0.35 and cands:
        a = cands[int(rng.integers(len(cands)))]
        t = _gen_cvx(rng, a, nx, xstar)
        obj['cvx'] = {k_: t[k_] for k_ in ('atom', 'params', 'M', 'v', 'mult')}
    elif r < 0.5:
        obj['pieces'] = _gen_pieces(rng, nx)
    spec['obj'] = obj
    # piecewise-linear constraints: mult*maxof(pieces) + g.x + k <= 0 / mult*minof(...) + ... >= 0
    spec['pw'] = []
    if not only_lin and rng.random() < 0.3:
        for _ in range(int(rng.integers(1, 3))):
            curv = 1 if rng.random() < 0.5 else -1
            pcs = _gen_pieces(rng, nx)
            mult = float(np.round(rng.uniform(0.3, 3.0), 2))
            g = np.round(rng.uniform(-1.5, 1.5, nx), 2) * (rng.random(nx) < 0.6)
            vals = [float(np.dot(p_['c'], xstar) + p_['k']) for p_ in pcs]
            v0 = mult * (max(vals) if curv == 1 else min(vals)) + float(g @ xstar)
            slack = float(np.round(rng.uniform(0.0, 1.0), 2)) * (rng.random() < 0.7)
            k = -v0 - curv * slack
            spec['pw'].append({'pieces': pcs, 'mult': mult, 'g': g.tolist(), 'k': float(k),
                               'curv': curv, 'spell': int(rng.integers(4))})
    return spec


def _gen_pieces(rng, nx):
    """2-4 affine pieces; some of them plain numbers (passed to maxof/minof as floats), possibly
    several of those."""
    npc = int(rng.integers(2, 5))
    pcs = []
    for _ in range(npc):
        if rng.random() < 0.3:
            pcs.append({'c': [0.0] * nx, 'k': float(np.round(rng.uniform(-2, 2), 2)),
                        'numeric': True})
        else:
            pcs.append({'c': np.round(rng.uniform(-2, 2, nx), 2).tolist(),
                        'k': float(np.round(rng.uniform(-1, 1), 2))})
    if all(p_.get('numeric') for p_ in pcs):
        pcs[0] = {'c': np.round(rng.uniform(-2, 2, nx), 2).tolist(), 'k': 0.0}
    return pcs


def pw_lhs(c, x):
    x = np.asarray(x, float)
    vals = [float(np.dot(p_['c'], x) + p_['k']) for p_ in c['pieces']]
    return c['mult'] * (max(vals) if c['curv'] == 1 else min(vals)) + float(np.dot(c['g'], x)) + c['k']


def _gen_cvx(rng, a, nx, xstar):
    info = AT.ATOMS[a]
    m = int(rng.integers(1, 4))
    if a in ('entropy', 'gmean', 'pnorm', 'pnormx', 'norm1', 'norminf', 'norm2', 'sumsqr',
             'quad', 'nquad') and m == 1 and rng.random() < 0.7:
        m = 2
    M = np.round(rng.uniform(-1.5, 1.5, (m, nx)), 2) * (rng.random((m, nx)) < 0.8)
    if not M.any():
        M[0, 0] = 1.0
    if rng.random() < 0.2 and m <= nx:
        M = np.eye(nx)[:m]
    params = AT.random_params(rng, a, m)
    if a == 'power' and rng.random() < 0.35:
        # a size-1 argument broadcast against arrays of exponents
        mo = int(rng.integers(2, 4))
        params = AT.random_params(rng, a, mo)
        while not isinstance(params['p'], list):
            params = AT.random_params(rng, a, mo)
        M = M[:1]
        m = 1
    v = np.round(rng.uniform(-1, 1, m), 2)
    if info.get('dom') is not None:
        v = np.round(-M @ xstar + rng.uniform(0.4, 1.5, m), 3)
    if a in ('exp', 'pexp', 'softplus'):
        v = np.round(-M @ xstar + rng.uniform(-1.0, 1.0, m), 3)
    mult = float(np.round(10 ** rng.uniform(-1, 1), 3)) if rng.random() < 0.5 else 1.0
    u = M @ xstar + v
    val = np.asarray(AT.value(a, u, params), float)
    curv = info['curv']
    if info['kind'] == 'scalar':
        g = _vec(rng, nx, 0.6, 1.5)
        base = mult * float(val) + g @ xstar
        slack = float(np.round(rng.uniform(0.05, 0.8), 2))
        k = -base - slack if curv == 1 else -base + slack
        g_out, k_out = g.tolist(), float(np.round(k, 6))
    else:
        mo_ = int(np.size(val))
        G = np.round(rng.uniform(-1.5, 1.5, (mo_, nx)), 2) * (rng.random((mo_, nx)) < 0.5)
        base = mult * val + G @ xstar
        slack = np.round(rng.uniform(0.05, 0.8, mo_), 2)
        k = -base - slack if curv == 1 else -base + slack
        g_out, k_out = G.tolist(), np.round(k, 6).tolist()
    return {'atom': a, 'params': params, 'M': M.tolist(), 'v': v.tolist(), 'mult': mult,
            'g': g_out, 'k': k_out, 'spell': int(rng.integers(8)),
            'mult_inside': bool(a in ('expsum', 'logsum') and rng.random() < 0.5)}


def _gen_special(rng, nx, xstar, cones):
    kinds = []
    if 'Q' in cones:
        kinds.append('rsocone')
    if 'X' in cones:
        kinds += ['expcone', 'kldiv']
    kind = kinds[int(rng.integers(len(kinds)))]

    def aff_pos(target):
        w = _vec(rng, nx, 0.7, 1.0)
        return {'w': w.tolist(), 'k': float(np.round(target - w @ xstar, 4))}
    if kind == 'rsocone':
        m = int(rng.integers(1, 4))
        M = np.round(rng.uniform(-1, 1, (m, nx)), 2)
        v = np.round(rng.uniform(-0.5, 0.5, m), 2)
        u = M @ xstar + v
        yv = float(np.round(rng.uniform(0.5, 2.0), 2))
        zv = float(np.round((u @ u) / yv + rng.uniform(0.1, 1.0), 3))
        return {'kind': 'rsocone', 'M': M.tolist(), 'v': v.tolist(), 'y': aff_pos(yv),
                'z': aff_pos(zv)}
    if kind == 'expcone':
        xv = float(np.round(rng.uniform(-1, 1), 2))
        zv = float(np.round(rng.uniform(0.5, 2.0), 2))
        yv = float(np.round(zv * np.exp(xv / zv) + rng.uniform(0.1, 1.0), 3))
        zconst = bool(rng.random() < 0.5)
        return {'kind': 'expcone', 'y': aff_pos(yv), 'x': aff_pos(xv),
                'z': {'w': [0.0] * nx, 'k': zv} if zconst else aff_pos(zv), 'zconst': zconst}
    m = int(rng.integers(2, 4))
    q = rng.uniform(0.5, 1.5, m)
    q = np.round(q / q.sum(), 3)
    p0 = np.round(q * rng.uniform(0.7, 1.3, m), 3)
    M = np.round(rng.uniform(-1, 1, (m, nx)), 2)
    v = np.round(p0 - M @ xstar, 4)
    kl = float(np.sum(p0 * np.log(p0 / q)))
    return {'kind': 'kldiv', 'M': M.tolist(), 'v': v.tolist(), 'q': q.tolist(),
            'r': float(np.round(kl + rng.uniform(0.05, 0.5), 3))}


def _gen_pinned(rng, spec, pool, atom, tier):
    """min t s.t. mult*atom(Mx+v) + k <= t (convex) / max t s.t. ... >= t, x == x0."""
    nx = spec['nx']
    a = atom if atom else pool[int(rng.integers(len(pool)))]
    info = AT.ATOMS[a]
    x0 = np.round(rng.uniform(-2, 2, nx), 2)
    spec['blocks'] = [{'n': nx, 'vtype': 'C'}, {'n': 1, 'vtype': 'C'}]
    for b in spec['bounds']:
        b['lo'], b['hi'] = -1e3, 1e3
    spec['bounds'].append({'lo': -1e4, 'hi': 1e4, 'style': 'obj'})
    spec['nx'] = nx + 1
    c = _gen_cvx(rng, a, nx, x0)
    m = len(c['v'])
    if info['kind'] != 'scalar':
        # element-wise atoms: pin a scalar instance per element through the sum of epigraphs
        m = 1
        c['M'] = [c['M'][0]]
        c['v'] = [c['v'][0]]
        pr = c['params']
        for key in ('p', 'q'):
            if isinstance(pr.get(key), list):
                pr[key] = pr[key][0]
    M = np.array(c['M'])
    c['M'] = np.hstack([M, np.zeros((M.shape[0], 1))]).tolist()
    kconst = float(np.round(rng.uniform(-1, 1), 2))
    if info['kind'] == 'scalar':
        c['g'] = [0.0] * nx + [-1.0]
        c['k'] = kconst
    else:
        c['g'] = [[0.0] * nx + [-1.0]]
        c['k'] = [kconst]
    spec['cvx'] = [c]
    spec['lin'] = [{'A': np.hstack([np.eye(nx), np.zeros((nx, 1))]).tolist(), 'sense': 'eq',
                    'b': x0.tolist()}]
    u = np.array(c['M'])[:, :nx] @ x0 + np.array(c['v'])
    val = c['mult'] * float(np.sum(AT.value(a, u, c['params']))) + kconst
    sense = 'min' if info['curv'] == 1 else 'max'
    cc = [0.0] * nx + [1.0]
    spec['obj'] = {'sense': sense, 'c': cc, 'k': 0.0, 'cvx': None, 'pieces': None}
    spec['xstar'] = x0.tolist() + [val + (1.0 if sense == 'min' else -1.0)]
    spec['expected'] = float(val)
    spec['pin'] = {'atom': a, 'u': u.tolist()}
    return spec


# ------------------------------------------------------------------ oracle

def aff(d, x):
    return float(np.dot(d['w'], x) + d['k'])


def cvx_lhs(c, x):
    """value of mult*atom(Mx+v) + g.x + k (scalar or vector) and domain flag."""
    x = np.asarray(x, float)
    u = np.array(c['M'], float) @ x + np.array(c['v'], float)
    ok = AT.in_domain(c['atom'], u, c['params'])
    val = np.asarray(AT.value(c['atom'], u, c['params']), float)
    g = np.array(c['g'], float)
    return c['mult'] * val + g @ x + np.array(c['k'], float), ok


def violations(spec, x, tol=1e-6):
    """List of (tag, amount) for user constraints violated at x."""
    x = np.asarray(x, float)
    out = []
    sc = 1 + np.max(np.abs(x))
    if spec.get('empty_rows'):
        for k, (sense, rhs) in enumerate(spec['empty_rows']):
            if (sense == 'le' and 0 > rhs + tol) or (sense == 'eq' and abs(rhs) > tol):
                out.append(('empty_row%d' % k, float(abs(rhs))))
    for i, b in enumerate(spec['bounds']):
        if x[i] < b['lo'] - tol * sc:
            out.append(('lb%d' % i, float(b['lo'] - x[i])))
        if x[i] > b['hi'] + tol * sc:
            out.append(('ub%d' % i, float(x[i] - b['hi'])))
    vt = sum([[b['vtype']] * b['n'] for b in spec['blocks']], [])
    for i, t in enumerate(vt):
        if t != 'C' and abs(x[i] - round(x[i])) > 1e-5:
            out.append(('int%d' % i, float(abs(x[i] - round(x[i])))))
    for k, l in enumerate(spec['lin']):
        A = np.array(l['A'], float)
        r = A @ x - np.array(l['b'], float)
        s = tol * (1 + np.abs(A) @ np.abs(x))
        if l['sense'] == 'le':
            v = np.max(r - s)
        elif l['sense'] == 'ge':
            v = np.max(-r - s)
        else:
            v = np.max(np.abs(r) - s)
        if v > 0:
            out.append(('lin%d' % k, float(v)))
    for k, c in enumerate(spec['cvx']):
        lhs, ok = cvx_lhs(c, x)
        curv = AT.ATOMS[c['atom']]['curv']
        s = 10 * tol * (1 + np.max(np.abs(lhs)) + c['mult'] * sc)
        amount = None
        if not ok:
            amount = 1.0
        elif curv == 1 and np.max(lhs) > s:
            amount = float(np.max(lhs))
        elif curv == -1 and np.min(lhs) < -s:
            amount = float(-np.min(lhs))
        if amount is not None and tol > 0 and _near_feasible(c, x, curv, s, 10 * tol):
            # atoms such as log are hypersensitive near the boundary of their domain: a point
            # whose atom argument is within solver tolerance of a feasible one is accepted
            amount = None
        if amount is not None:
            out.append(('cvx%d%s' % (k, '_domain' if not ok else ':' + c['atom']), amount))
    for k, s_ in enumerate(spec['special']):
        v = special_viol(s_, x)
        if v > 20 * tol * sc:
            out.append(('special%d:%s' % (k, s_['kind']), float(v)))
    for k, c in enumerate(spec.get('pw', [])):
        v = c['curv'] * pw_lhs(c, x)
        if v > 10 * tol * (1 + c['mult']) * sc:
            out.append(('pw%d:%s' % (k, 'maxof' if c['curv'] == 1 else 'minof'), float(v)))
    return out


def _near_feasible(c, x, curv, s, delta):
    """True if some perturbation of the atom's argument by at most delta*(1+|u|) per
    component satisfies the constraint."""
    x = np.asarray(x, float)
    u = np.array(c['M'], float) @ x + np.array(c['v'], float)
    g = np.array(c['g'], float)
    rest = g @ x + np.array(c['k'], float)
    m = u.size
    if m > 4:
        return False
    for sg in itertools.product([-1.0, 0.0, 1.0], repeat=m):
        up = u + np.array(sg) * delta * (1 + np.abs(u))
        if not AT.in_domain(c['atom'], up, c['params']):
            continue
        lhs = c['mult'] * np.asarray(AT.value(c['atom'], up, c['params']), float) + rest
        if (curv == 1 and np.max(lhs) <= s) or (curv == -1 and np.min(lhs) >= -s):
            return True
    return False


def special_viol(s, x):
    x = np.asarray(x, float)
    if s['kind'] == 'rsocone':
        u = np.array(s['M']) @ x + np.array(s['v'])
        y, z = aff(s['y'], x), aff(s['z'], x)
        return max(u @ u - y * z, -y, -z)
    if s['kind'] == 'expcone':
        y, xx, z = aff(s['y'], x), aff(s['x'], x), aff(s['z'], x)
        if z <= 1e-12:
            return max(-z, xx if xx > 0 else 0.0, -y)
        return z * np.exp(min(xx / z, 700)) - y
    p = np.array(s['M']) @ x + np.array(s['v'])
    q = np.array(s['q'])
    if np.any(p < -1e-7):
        return float(-np.min(p))
    pp = np.maximum(p, 1e-300)
    return float(np.sum(pp * np.log(pp / q)) - s['r'])


def objective(spec, x):
    x = np.asarray(x, float)
    o = spec['obj']
    val = float(np.dot(o['c'], x) + o['k'])
    if o.get('cvx'):
        c = o['cvx']
        u = np.array(c['M'], float) @ x + np.array(c['v'], float)
        val += c['mult'] * float(AT.value(c['atom'], u, c['params']))
    if o.get('pieces'):
        vals = [float(np.dot(p['c'], x) + p['k']) for p in o['pieces']]
        val += max(vals) if o['sense'] == 'min' else min(vals)
    return val


def objective_in_domain(spec, x):
    o = spec['obj']
    if o.get('cvx'):
        c = o['cvx']
        u = np.array(c['M'], float) @ np.asarray(x, float) + np.array(c['v'], float)
        return AT.in_domain(c['atom'], u, c['params'])
    return True


# ------------------------------------------------------------------ RSOME build

class Built:
    pass


def _hook(variant, point, B=None):
    cb = (variant or {}).get('hook')
    if cb is not None:
        cb(point, B)


def build(spec, variant=None):
    try:
        return _build(spec, variant)
    finally:
        AT.ARR[0] = None
        AT.ARRI[0] = None


def _build(spec, variant=None):
    import rsome as rso
    from rsome import ro, dro
    variant = variant or {}
    rng = np.random.default_rng(spec['spell'] + int(variant.get('respell', 0)))
    B = Built()
    m = ro.Model() if spec['front'] == 'ro' else dro.Model()
    B.model = m
    B.arrays = []

    B.digests = []

    def arr(a):
        a = user_array(a, variant.get('arr'))
        B.arrays.append(a)
        B.digests.append(_digest(a))
        return a

    AT.ARR[0] = arr

    def arri(a):
        a = np.array(a)
        a.flags.writeable = False
        B.arrays.append(a)
        B.digests.append(_digest(a))
        return a

    AT.ARRI[0] = arri

    # 'prelude' (C06/C07): the model starts its life with a few continuous variables under an
    # abs / 1-norm constraint (auxiliary columns) and an epigraph variable carrying the objective,
    # is formulated or solved once, and only then gets the variables and constraints of the spec
    # (integer variables declared behind columns an earlier formulation has used).  The prelude
    # variables are decoupled (w = 0 is feasible), so every reference computation is unchanged.
    pre = spec.get('prelude')
    B.epi = None
    if pre is not None:
        pr = np.random.default_rng(int(pre))
        w = m.dvar(int(pr.integers(1, 4)))
        B.epi = m.dvar()
        if spec['obj']['sense'] == 'min':
            m.min(B.epi)
            m.st(B.epi >= -1e4)
        else:
            m.max(B.epi)
            m.st(B.epi <= 1e4)
        m.st(rso.norm(w, 1) <= 5.0 if pr.random() < 0.5 else abs(w) <= 2.0)
        how = int(pr.integers(3))
        if how == 0:
            m.do_math()
        elif how == 1:
            m.solve(display=False)
        else:
            from rsome import ort_solver
            m.solve(ort_solver, display=False)
    xs = [m.dvar(b['n'], b['vtype']) for b in spec['blocks']]
    B.xs = xs
    off = np.concatenate(([0], np.cumsum([b['n'] for b in spec['blocks']])))
    nx = spec['nx']

    def lin(w, k=0.0):
        """affine scalar w.x + k"""
        w = np.array(w, float)
        terms = []
        for bi, x in enumerate(xs):
            wb = w[off[bi]:off[bi + 1]]
            if wb.any() or (bi == 0 and not w.any()):
                terms.append(arr(wb) @ x if rng.random() < 0.5 else (x * arr(wb)).sum())
        out = terms[0]
        for t in terms[1:]:
            out = out + t
        return out + k if (k != 0 or rng.random() < 0.3) else out

    def mat(Mx, v=None):
        """affine vector M x + v"""
        Mx = np.array(Mx, float)
        out = None
        for bi, x in enumerate(xs):
            Mb = Mx[:, off[bi]:off[bi + 1]]
            if Mb.any() or (out is None and bi == len(xs) - 1):
                t = arr(Mb) @ x
                out = t if out is None else out + t
        if v is not None:
            out = out + arr(v)
        return out

    B.lin, B.mat = lin, mat
    B.constr = []
    _hook(variant, 'declared', B)
    # bounds
    for bi, x in enumerate(xs):
        lo = np.array([spec['bounds'][i]['lo'] for i in range(off[bi], off[bi + 1])])
        hi = np.array([spec['bounds'][i]['hi'] for i in range(off[bi], off[bi + 1])])
        styles = [spec['bounds'][i]['style'] for i in range(off[bi], off[bi + 1])]
        B.bound_constr = getattr(B, 'bound_constr', [])
        uni = lambda v: bool(np.all(np.isfinite(v)) or not np.any(np.isfinite(v)))
        if spec.get('perm_bounds') and len(lo) >= 2 and all(s == 'obj' for s in styles) and \
                uni(lo) and uni(hi) and (np.all(np.isfinite(lo)) or np.all(np.isfinite(hi))):
            # bound objects written on a reversed / permuted selection of the entries (scalar
            # right-hand side when all entries share it): dual() must follow the order written
            prng = np.random.default_rng(int(spec['perm_bounds']) + bi)
            if prng.random() < 0.5:
                order, sel = list(range(len(lo)))[::-1], x[::-1]
            else:
                order = [int(i_) for i_ in prng.permutation(len(lo))]
                sel = x[order]
            gidx = [int(off[bi] + o_) for o_ in order]
            for kind_, v_ in (('L', lo), ('U', hi)):
                if not np.all(np.isfinite(v_)):
                    continue
                rhs_ = float(v_[0]) if np.all(v_ == v_[0]) else arr(v_[order])
                c_ = m.st(sel >= rhs_) if kind_ == 'L' else m.st(sel <= rhs_)
                # a scalar right-hand side gives a bound object, an array a block of rows (which
                # report their multipliers in the row convention)
                if type(c_).__name__ != 'Bounds':
                    kind_ = 'row' + kind_
                B.bound_constr.append((kind_, gidx, c_))
            continue
        if all(s == 'obj' for s in styles) and np.all(np.isfinite(lo)) and np.all(np.isfinite(hi)):
            if np.all(lo == lo[0]) and rng.random() < 0.5:
                c1 = m.st(x >= float(lo[0]))
            else:
                c1 = m.st(x >= arr(lo))
            c2 = m.st(x <= arr(hi))
            B.bound_constr.append(('L', list(range(off[bi], off[bi + 1])), c1))
            B.bound_constr.append(('U', list(range(off[bi], off[bi + 1])), c2))
        else:
            for j in range(len(lo)):
                gi = int(off[bi] + j)
                if styles[j] == 'obj':
                    if np.isfinite(lo[j]):
                        B.bound_constr.append(('L', [gi], m.st(x[j] >= float(lo[j]))))
                    if np.isfinite(hi[j]):
                        B.bound_constr.append(('U', [gi], m.st(x[j] <= float(hi[j]))))
                else:
                    if np.isfinite(lo[j]):
                        B.bound_constr.append(('rowL', [gi], m.st(1 * x[j] >= float(lo[j]))))
                    if np.isfinite(hi[j]):
                        B.bound_constr.append(('rowU', [gi],
                                               m.st(-1.0 * x[j] >= -float(hi[j]))))
    if variant.get('loose_bounds'):
        # redundant, looser bounds stated AFTER the real ones (whole variable, slices, entries):
        # several Bounds objects on the same entries, the tightest has to win
        lr = np.random.default_rng(int(variant['loose_bounds']))
        for bi, x in enumerate(xs):
            lo = np.array([spec['bounds'][i]['lo'] for i in range(off[bi], off[bi + 1])])
            hi = np.array([spec['bounds'][i]['hi'] for i in range(off[bi], off[bi + 1])])
            n_ = len(lo)
            d_ = np.round(lr.uniform(0.5, 3.0, n_), 1)
            how = int(lr.integers(3))
            if how == 0:
                m.st(x <= np.where(np.isfinite(hi), hi + d_, 1e4))
                m.st(x >= np.where(np.isfinite(lo), lo - d_, -1e4))
            elif how == 1:
                for j in range(n_):
                    if np.isfinite(hi[j]):
                        m.st(x[j] <= float(hi[j] + d_[j]))
                    if np.isfinite(lo[j]):
                        m.st(x[j] >= float(lo[j] - d_[j]))
            else:
                k_ = int(lr.integers(0, n_))
                if np.all(np.isfinite(hi[k_:])):
                    m.st(x[k_:] <= float(hi[k_:].max() + d_[0]))
                if np.all(np.isfinite(lo[:k_ + 1])):
                    m.st(x[:k_ + 1] >= float(lo[:k_ + 1].min() - d_[0]))
    for l in spec['lin']:
        lhs = mat(l['A'])
        b = arr(l['b'])
        if l['sense'] == 'le':
            c = (lhs <= b) if rng.random() < 0.6 else (b >= lhs)
        elif l['sense'] == 'ge':
            c = (lhs >= b) if rng.random() < 0.6 else (b <= lhs)
        else:
            c = (lhs == b)
        B.constr.append(m.st(c))
        B.lin_constr = getattr(B, 'lin_constr', []) + [c]
    for (sense, rhs) in spec.get('empty_rows', []):
        z0 = 0 * xs[0][0]
        B.constr.append(m.st(z0 <= rhs if sense == 'le' else z0 == rhs))
    for c in spec['cvx']:
        _hook(variant, 'row', B)
        if variant.get('mult_into_arg') and c['atom'] in ('abs', 'norm1', 'norminf', 'norm2') \
                and c['mult'] > 0 and not c.get('mult_inside'):
            # positively homogeneous atoms: k*atom(Mx + v) written as atom(k*Mx + k*v)
            c = dict(c, M=(c['mult'] * np.array(c['M'], float)).tolist(),
                     v=(c['mult'] * np.array(c['v'], float)).tolist(), mult=1.0)
        B.constr.append(m.st(cvx_constraint(rso, B, c, rng)))
    for s in spec['special']:
        if s['kind'] == 'rsocone':
            u = mat(s['M'], s['v'])
            c = rso.rsocone(u, lin(s['y']['w'], s['y']['k']), lin(s['z']['w'], s['z']['k']))
        elif s['kind'] == 'expcone':
            z = s['z']['k'] if s['zconst'] else lin(s['z']['w'], s['z']['k'])
            c = rso.expcone(lin(s['y']['w'], s['y']['k']), lin(s['x']['w'], s['x']['k']), z)
        else:
            c = rso.kldiv(mat(s['M'], s['v']), arr(s['q']), s['r'])
        B.constr.append(m.st(c))
    for c in spec.get('pw', []):
        pcs = [float(p_['k']) if p_.get('numeric') else lin(p_['c'], p_['k']) for p_ in c['pieces']]
        pw = rso.maxof(*pcs) if c['curv'] == 1 else rso.minof(*pcs)
        if c.get('spell', 0) % 3 == 0:
            # the same piecewise object is first used in a slack constraint: comparisons must
            # not change the object
            # (an affine right-hand side: the ro front end refuses a bare number there, loudly)
            m.st(pw <= 0 * xs[0][0] + 1e3 if c['curv'] == 1 else pw >= 0 * xs[0][0] - 1e3)
        rest = lin(c['g'], c['k'])
        sp_ = (c.get('spell', 0) + (variant or {}).get('respell', 0)) % 4
        if c['curv'] == 1:
            con = [c['mult'] * pw + rest <= 0, pw * c['mult'] <= -rest,
                   -rest >= c['mult'] * pw, rest + c['mult'] * pw <= 0][sp_]
        else:
            con = [c['mult'] * pw + rest >= 0, pw * c['mult'] >= -rest,
                   -rest <= c['mult'] * pw, rest + c['mult'] * pw >= 0][sp_]
        B.constr.append(m.st(con))
    _hook(variant, 'objective', B)
    o = spec['obj']
    e = lin(o['c'], o['k'])
    if o.get('cvx'):
        c = o['cvx']
        at = AT.build(c['atom'], rso, mat(c['M'], c['v']), c['params'])
        if c['atom'] in ('expsum', 'logsum') and rng.random() < 0.5:
            inner = rso.exp(mat(c['M'], c['v'])) if c['atom'] == 'expsum' else \
                rso.log(mat(c['M'], c['v']))
            e = AT._sum1d(c['mult'] * inner, inner) + e
        else:
            r_ = rng.random()
            if r_ < 0.35:
                e = c['mult'] * at + e
            elif r_ < 0.7:
                e = e + at * c['mult']
            else:              # the multiplier factored out of the whole objective
                e = c['mult'] * (at + (1.0 / c['mult']) * e)
    if o.get('pieces'):
        pcs = [float(p['k']) if p.get('numeric') else lin(p['c'], p['k']) for p in o['pieces']]
        pw = rso.maxof(*pcs) if o['sense'] == 'min' else rso.minof(*pcs)
        e = pw + e
    B.obj_expr = e
    if B.epi is not None:
        if o['sense'] == 'min':
            m.st(e <= B.epi)
        else:
            m.st(e >= B.epi)
    elif o['sense'] == 'min':
        m.min(e)
    else:
        m.max(e)
    return B


def cvx_constraint(rso, B, c, rng=None):
    """mult*atom(Mx+v) + g.x + k <= 0 (convex) or >= 0 (concave) in one of several
    equivalent spellings."""
    info = AT.ATOMS[c['atom']]
    at = AT.build(c['atom'], rso, B.mat(c['M'], c['v']), c['params'])
    mult = c['mult']
    if c.get('mult_inside'):
        # (mult*exp(u)).sum() instead of mult*exp(u).sum()
        inner = rso.exp(B.mat(c['M'], c['v'])) if c['atom'] == 'expsum' else \
            rso.log(B.mat(c['M'], c['v']))
        at = AT._sum1d(mult * inner, inner)
        mult = 1.0
    g = np.array(c['g'], float)
    if g.ndim == 1:
        rest = B.lin(g, c['k'])
    else:
        rest = B.mat(g, c['k'])
    sp = c.get('spell', 0)
    if info['curv'] == 1:
        if sp == 0:
            return mult * at + rest <= 0
        if sp == 1:
            return mult * at <= -rest
        if sp == 2:
            return -rest >= at * mult
        if sp == 3:
            return (-mult) * at - rest >= 0
        if sp == 4:
            return 0 >= rest + mult * at
        if sp == 6:      # the multiplier factored out of the whole bracket
            return mult * (at + (1.0 / mult) * rest) <= 0
        if sp == 7:
            return (at + rest * (1.0 / mult)) * mult <= 0
        return -(mult * at) >= rest
    if sp == 0:
        return mult * at + rest >= 0
    if sp == 1:
        return mult * at >= -rest
    if sp == 2:
        return -rest <= at * mult
    if sp == 3:
        return (-mult) * at - rest <= 0
    if sp == 4:
        return 0 <= rest + mult * at
    if sp == 6:
        return mult * (at + (1.0 / mult) * rest) >= 0
    if sp == 7:
        return (at + rest * (1.0 / mult)) * mult >= 0
    return -(mult * at) <= rest


def read_x(spec, B):
    out = []
    for x in B.xs:
        v = x.get()
        out.append(np.atleast_1d(np.asarray(v, float)).reshape(-1))
    return np.concatenate(out)


def cone_need(spec):
    need = 'L'
    for c in spec['cvx'] + ([spec['obj']['cvx']] if spec['obj'].get('cvx') else []):
        k = AT.ATOMS[c['atom']]['cone']
        if k == 'X':
            need = 'X'
        elif k == 'Q' and need != 'X':
            need = 'Q'
    for s in spec['special']:
        if s['kind'] == 'rsocone' and need == 'L':
            need = 'Q'
        if s['kind'] in ('expcone', 'kldiv'):
            need = 'X'
    return need


# ------------------------------------------------------------------ references

def brute_force(spec):
    """Exact optimum by enumeration when every variable is integer/binary, or mixed with
    linear constraints only.  Returns (value, x) or None if not applicable."""
    vt = sum([[b['vtype']] * b['n'] for b in spec['blocks']], [])
    ints = [i for i, t in enumerate(vt) if t != 'C']
    conts = [i for i, t in enumerate(vt) if t == 'C']
    if not ints:
        return None
    if conts and (spec['cvx'] or spec['special'] or spec['obj'].get('cvx')
                  or spec['obj'].get('pieces') or spec.get('pw')):
        return None
    ranges = []
    for i in ints:
        b = spec['bounds'][i]
        lo, hi = int(np.ceil(b['lo'] - 1e-9)), int(np.floor(b['hi'] + 1e-9))
        if vt[i] == 'B':
            lo, hi = max(lo, 0), min(hi, 1)
        ranges.append(range(lo, hi + 1))
    total = int(np.prod([len(r) for r in ranges]))
    if total > 400 or total == 0:
        return None
    sgn = 1 if spec['obj']['sense'] == 'min' else -1
    best, bx = None, None
    nx = spec['nx']
    for combo in itertools.product(*ranges):
        x = np.zeros(nx)
        x[ints] = combo
        if not conts:
            if violations(spec, x, tol=1e-9):
                continue
            val = objective(spec, x)
        else:
            c = sgn * np.array(spec['obj']['c'], float)
            Aub, bub, Aeq, beq = [], [], [], []
            for l in spec['lin']:
                A = np.array(l['A'], float)
                b = np.array(l['b'], float) - A[:, ints] @ np.array(combo, float)
                if l['sense'] == 'le':
                    Aub.append(A[:, conts]); bub.append(b)
                elif l['sense'] == 'ge':
                    Aub.append(-A[:, conts]); bub.append(-b)
                else:
                    Aeq.append(A[:, conts]); beq.append(b)
            res = linprog(c[conts], A_ub=np.vstack(Aub) if Aub else None,
                          b_ub=np.concatenate(bub) if bub else None,
                          A_eq=np.vstack(Aeq) if Aeq else None,
                          b_eq=np.concatenate(beq) if beq else None,
                          bounds=[(spec['bounds'][i]['lo'], spec['bounds'][i]['hi'])
                                  for i in conts], method='highs')
            if res.status != 0:
                continue
            x[conts] = res.x
            val = objective(spec, x)
        if best is None or sgn * val < sgn * best - 1e-12:
            best, bx = val, x.copy()
    if best is None:
        return ('infeasible', None)
    return (best, bx)


def improve_search(spec, x, rng, tries=150):
    """Search for a point of the user's model that is feasible (strictly, margin 1e-9 in
    the oracle) and strictly better than x.  Returns (x2, gain) or None."""
    x = np.asarray(x, float)
    vt = sum([[b['vtype']] * b['n'] for b in spec['blocks']], [])
    if any(t != 'C' for t in vt):
        return None
    sgn = 1 if spec['obj']['sense'] == 'min' else -1
    f0 = objective(spec, x)
    xs = np.array(spec['xstar'], float)
    best = None
    nx = spec['nx']

    def feasible(p):
        return not violations(spec, p, tol=-1e-9) and objective_in_domain(spec, p)

    cands = []
    for _ in range(tries):
        d = rng.normal(size=nx)
        d /= np.linalg.norm(d) + 1e-12
        for a in (1e-3, 1e-2, 0.1, 0.5):
            cands.append(x + a * d)
            cands.append(x + a * d + 0.3 * a * (xs - x))
    # local NLP from the interior point as another candidate generator
    try:
        cons = []
        for l in spec['lin']:
            A = np.array(l['A'], float)
            b = np.array(l['b'], float)
            if l['sense'] == 'le':
                cons.append({'type': 'ineq', 'fun': lambda p, A=A, b=b: b - A @ p})
            elif l['sense'] == 'ge':
                cons.append({'type': 'ineq', 'fun': lambda p, A=A, b=b: A @ p - b})
            else:
                cons.append({'type': 'eq', 'fun': lambda p, A=A, b=b: A @ p - b})
        for c in spec['cvx']:
            curv = AT.ATOMS[c['atom']]['curv']
            cons.append({'type': 'ineq', 'fun': lambda p, c=c, curv=curv:
                         -curv * np.atleast_1d(cvx_lhs(c, p)[0])})
        for s_ in spec['special']:
            cons.append({'type': 'ineq', 'fun': lambda p, s_=s_: -special_viol(s_, p)})
        for c in spec.get('pw', []):
            cons.append({'type': 'ineq', 'fun': lambda p, c=c: -c['curv'] * pw_lhs(c, p)})
        bnds = [(b['lo'], b['hi']) for b in spec['bounds']]
        res = minimize(lambda p: sgn * objective(spec, p), xs, method='SLSQP', bounds=bnds,
                       constraints=cons, options={'maxiter': 200, 'ftol': 1e-10})
        if np.all(np.isfinite(res.x)):
            for lam in (0.0, 1e-4, 1e-3, 1e-2):
                cands.append(res.x + lam * (xs - res.x))
    except Exception:
        pass
    for p in cands:
        try:
            fp = objective(spec, p)
        except Exception:
            continue
        gain = sgn * (f0 - fp)
        if gain > 0 and (best is None or gain > best[1]) and feasible(p):
            best = (p, gain)
    return best


# ------------------------------------------------------------------ LP generator with all bound patterns

PATTERNS = ['free', 'ge0', 'le0', 'lower', 'upper', 'both', 'fixed0', 'fixed', 'le0_lower',
            'ge0_upper']


def gen_lp(rng, tier='quick', ints=False, outcome='optimal', patterns=None, front=None,
           many_rows=False):
    """Continuous (or mixed-integer) LP that is feasible and bounded by construction
    (a primal point and a dual certificate are built first), with every bound pattern.
    outcome: 'optimal' | 'infeasible' | 'unbounded' (by construction)."""
    big = tier == 'thorough'
    patterns = patterns or PATTERNS
    nx = int(rng.integers(1, 7 if big else 5))
    front = front or ('ro' if rng.random() < 0.6 else 'dro')
    blocks = []
    left = nx
    while left > 0:
        k = int(rng.integers(1, left + 1))
        vt = 'C'
        if ints and rng.random() < 0.6:
            vt = 'B' if rng.random() < 0.5 else 'I'
        blocks.append({'n': k, 'vtype': vt})
        left -= k
    vt_all = sum([[b['vtype']] * b['n'] for b in blocks], [])
    xstar = np.round(rng.uniform(-2, 2, nx), 2)
    bounds = []
    rl = np.zeros(nx)
    ru = np.zeros(nx)
    for i in range(nx):
        pat = patterns[int(rng.integers(len(patterns)))]
        lo, hi = -np.inf, np.inf
        if vt_all[i] == 'B':
            xstar[i] = float(rng.integers(0, 2))
            lo, hi = 0.0, 1.0
            r = rng.random()
            if r < 0.15:
                hi = xstar[i] = 0.0
            elif r < 0.3:
                lo = xstar[i] = 1.0
            pat = 'both'
        elif vt_all[i] == 'I':
            a = int(rng.integers(-3, 3))
            w = int(rng.integers(1, 4))
            lo, hi = float(a), float(a + w)
            xstar[i] = float(rng.integers(a, a + w + 1))
            pat = 'both'
        elif pat == 'ge0':
            lo = 0.0
            xstar[i] = abs(xstar[i]) if rng.random() < 0.7 else 0.0
        elif pat == 'le0':
            hi = 0.0
            xstar[i] = -abs(xstar[i]) if rng.random() < 0.7 else 0.0
        elif pat == 'lower':
            lo = float(np.round(xstar[i] - rng.uniform(0, 1.5), 2))
        elif pat == 'upper':
            hi = float(np.round(xstar[i] + rng.uniform(0, 1.5), 2))
        elif pat == 'both':
            lo = float(np.round(xstar[i] - rng.uniform(0, 1.5), 2))
            hi = float(np.round(xstar[i] + rng.uniform(0, 1.5), 2))
        elif pat == 'le0_lower':
            hi = 0.0
            xstar[i] = -abs(xstar[i])
            lo = float(np.round(xstar[i] - rng.uniform(0, 1.5), 2))
        elif pat == 'ge0_upper':
            lo = 0.0
            xstar[i] = abs(xstar[i])
            hi = float(np.round(xstar[i] + rng.uniform(0, 1.5), 2))
        elif pat == 'fixed0':
            lo = hi = 0.0
            xstar[i] = 0.0
        elif pat == 'fixed':
            lo = hi = float(xstar[i]) if xstar[i] != 0 else 0.5
            xstar[i] = lo
        if np.isfinite(lo):
            rl[i] = rng.uniform(0, 1.5) * (rng.random() < 0.6)
        if np.isfinite(hi):
            ru[i] = rng.uniform(0, 1.5) * (rng.random() < 0.6)
        bounds.append({'lo': lo, 'hi': hi, 'style': 'obj' if rng.random() < 0.7 else 'row',
                       'pattern': pat})
    lin = []
    c = rl - ru
    nrows = int(rng.integers(1, 4)) if not many_rows else int(rng.integers(5, 10))
    for _ in range(nrows):
        k = int(rng.integers(1, 4)) if not many_rows else int(rng.integers(2, 6))
        A = np.round(rng.uniform(-2, 2, (k, nx)), 2) * (rng.random((k, nx)) < 0.7)
        sense = ['le', 'ge', 'eq'][int(rng.integers(3))]
        y = rng.uniform(0, 1.5, k) * (rng.random(k) < 0.7)
        if sense == 'eq':
            # (all-zero equality rows are kept: ECOS used to crash on them, fixed in cf1cf06)
            b = A @ xstar
            c = c + A.T @ rng.uniform(-1, 1, k)
        elif sense == 'le':
            b = A @ xstar + np.round(rng.uniform(0, 1.0, k) * (rng.random(k) < 0.7), 2)
            c = c - A.T @ y
        else:
            b = A @ xstar - np.round(rng.uniform(0, 1.0, k) * (rng.random(k) < 0.7), 2)
            c = c + A.T @ y
        lin.append({'A': A.tolist(), 'sense': sense, 'b': b.tolist()})
    sense = 'min' if rng.random() < 0.5 else 'max'
    spec = {'front': front, 'blocks': blocks, 'nx': nx, 'bounds': bounds, 'lin': lin, 'cvx': [],
            'special': [], 'xstar': xstar.tolist(), 'spell': int(rng.integers(1 << 30)),
            'pinned': False, 'empty_rows': [],
            'obj': {'sense': sense, 'c': (c if sense == 'min' else -c).tolist(),
                    'k': float(np.round(rng.uniform(-1, 1), 2)), 'cvx': None, 'pieces': None},
            'outcome': outcome}
    if rng.random() < 0.15:
        spec['empty_rows'].append(('le', float(np.round(rng.uniform(0, 1), 2))))
    if outcome == 'infeasible':
        r = rng.random()
        if r < 0.3:
            # crossing user bounds on one variable (or, for an integer one, an interval
            # without an integer point)
            i = int(rng.integers(nx))
            b = spec['bounds'][i]
            vt_i = vt_all[i]
            if vt_i != 'C' and rng.random() < 0.5:
                base = float(rng.integers(-2, 3)) if vt_i == 'I' else 0.0
                b['lo'], b['hi'] = base + 0.3, base + 0.7
            else:
                ref = b['hi'] if np.isfinite(b['hi']) else (b['lo'] if np.isfinite(b['lo'])
                                                            else float(xstar[i]))
                b['hi'] = float(ref)
                b['lo'] = float(ref) + float(np.round(rng.uniform(0.5, 2), 1))
            b['pattern'] = 'crossing'
            if rng.random() < 0.8:
                b['style'] = 'obj'
        elif r < 0.45:
            spec['empty_rows'].append(('le', -1.0))
        elif r < 0.5:
            spec['empty_rows'].append(('eq', 1.0))
        else:
            a = np.round(rng.uniform(-2, 2, nx), 2)
            a[0] = a[0] or 1.0
            beta = float(np.round(a @ xstar, 3))
            spec['lin'].append({'A': [a.tolist()], 'sense': 'le', 'b': [beta - 1.0]})
            spec['lin'].append({'A': [a.tolist()], 'sense': 'ge', 'b': [beta + 1.0]})
    elif outcome == 'unbounded':
        # a new free continuous variable that appears only in the objective
        spec['blocks'].append({'n': 1, 'vtype': 'C'})
        spec['bounds'].append({'lo': -np.inf, 'hi': np.inf if rng.random() < 0.5 else 3.0,
                               'style': 'obj', 'pattern': 'free'})
        spec['nx'] = nx + 1
        for l in spec['lin']:
            l['A'] = [row + [0.0] for row in l['A']]
        spec['obj']['c'] = spec['obj']['c'] + [1.0 if sense == 'min' else -1.0]
        spec['xstar'] = spec['xstar'] + [0.0]
    return spec
