"""Shared helpers: solver handles, silent solve, purity guards, program
fingerprints and program audits."""
import hashlib
import os
import warnings

import numpy as np
import scipy.sparse as sp

warnings.filterwarnings('ignore')

_SOLVERS = {}


def solver(name):
    """name in {'def','lpg','ort','grb','eco'}; returns module or None."""
    if name in _SOLVERS:
        return _SOLVERS[name]
    mod = None
    try:
        if name == 'def':
            mod = None
        elif name == 'lpg':
            from rsome import lpg_solver as mod
        elif name == 'ort':
            from rsome import ort_solver as mod
        elif name == 'grb':
            from rsome import grb_solver as mod
        elif name == 'eco':
            from rsome import eco_solver as mod
    except Exception:
        mod = False
    _SOLVERS[name] = mod
    return mod


def solve(model, sname='def', **kw):
    """Solve silently; returns None. Raises what rsome raises."""
    s = solver(sname)
    if s is False:
        raise RuntimeError('solver %s unavailable' % sname)
    with warnings.catch_warnings():
        warnings.simplefilter('ignore')
        if sname == 'def':
            model.solve(display=False, **kw)
        else:
            if sname == 'grb':
                # Gurobi's default barrier tolerance for QCPs (1e-6) stops visibly early on some
                # small SOC programs; outside C11 the harness asks for a tight one
                kw.setdefault('params', {'BarQCPConvTol': 1e-10, 'TimeLimit': 30, 'Threads': 1})
            model.solve(s, display=False, **kw)


def solve_formula(formula, sname='def'):
    from rsome import lp as rlp
    s = solver(sname)
    with warnings.catch_warnings():
        warnings.simplefilter('ignore')
        if sname == 'def':
            return rlp.def_sol(formula, display=False)
        if sname == 'grb':
            return s.solve(formula, display=False, params={'TimeLimit': 30, 'Threads': 1})
        return s.solve(formula, display=False)


def optimal(model):
    sol = model.solution
    if sol is None:
        return False
    try:
        if getattr(sol, 'solver', None) == 'Gurobi' and str(sol.status) != '2':
            # 13 SUBOPTIMAL, 9 TIME_LIMIT, 10 SOLUTION_LIMIT, ...: a point is returned, but the
            # solver does not claim optimality - nothing to judge
            return False
        return not np.isnan(sol.objval) and sol.x is not None
    except Exception:
        return False


def cone_class(formula):
    q = bool(getattr(formula, 'qmat', None))
    x = bool(getattr(formula, 'xmat', None))
    integer = bool(np.any(np.asarray(formula.vtype) != 'C'))
    return ('X' if x else 'Q' if q else 'L') + ('I' if integer else '')


def solvers_for(formula):
    c = cone_class(formula)
    if c == 'L':
        return ['def', 'lpg', 'ort', 'grb', 'eco']
    if c == 'LI':
        return ['def', 'ort', 'grb']      # ECOS_BB is not reliable (see DESIGN.md section 8)
    if c == 'Q':
        return ['grb', 'eco']
    if c == 'QI':
        return ['grb']
    if c == 'X':
        return ['eco']
    return []


# ---------------------------------------------------------------- purity

def digest(a):
    if sp.issparse(a):
        h = hashlib.sha1()
        if isinstance(a, sp.coo_matrix):
            parts = (a.data, a.row, a.col)         # the buffers the user owns
        else:
            a = a.tocsr() if not isinstance(a, (sp.csr_matrix, sp.csc_matrix)) else a
            parts = (a.data, a.indices, a.indptr)
        for part in parts:
            h.update(np.ascontiguousarray(part).tobytes())
        h.update(str(a.shape).encode())
        return h.hexdigest()
    a = np.asarray(a)
    h = hashlib.sha1(np.ascontiguousarray(a).tobytes())
    h.update(str((a.shape, a.dtype.str)).encode())
    return h.hexdigest()


class Guard:
    """Registers user-side arrays: makes them read-only and remembers a digest;
    check() returns the list of arrays that changed."""

    def __init__(self):
        self.items = []

    def add(self, a, name='arr', readonly=True):
        if isinstance(a, np.ndarray):
            if readonly:
                try:
                    a.flags.writeable = False
                except Exception:
                    pass
        self.items.append((name, a, digest(a)))
        return a

    def check(self):
        bad = []
        for name, a, d in self.items:
            if digest(a) != d:
                bad.append(name)
        return bad


# ---------------------------------------------------------------- fingerprints

def _nz(a):
    a = np.array(a, dtype=float)
    a[a == 0] = 0.0  # -0.0 -> 0.0
    return a


def formula_arrays(f):
    lin = sp.csr_matrix(f.linear).copy()
    lin.sum_duplicates()
    lin.eliminate_zeros()
    lin.sort_indices()
    d = {
        'shape': tuple(lin.shape),
        'data': _nz(lin.data), 'indices': lin.indices.copy(), 'indptr': lin.indptr.copy(),
        'const': _nz(f.const), 'sense': np.array(f.sense, dtype=float),
        'vtype': np.array(f.vtype, dtype=str), 'ub': _nz(f.ub), 'lb': _nz(f.lb),
        'obj': _nz(np.asarray(f.obj).reshape(-1)) if f.obj is not None else np.zeros(0),
        'qmat': [list(map(int, q)) for q in getattr(f, 'qmat', []) or []],
        'xmat': [list(map(int, q)) for q in getattr(f, 'xmat', []) or []],
        'nlmi': len(getattr(f, 'lmi', []) or []),
    }
    return d


def fingerprint(f):
    """Exact (numeric, -0.0 == 0.0) fingerprint of a compiled program."""
    d = formula_arrays(f)
    h = hashlib.sha1()
    for k in ('data', 'indices', 'indptr', 'const', 'sense', 'ub', 'lb', 'obj'):
        h.update(k.encode())
        h.update(np.ascontiguousarray(d[k]).tobytes())
    h.update(str(d['shape']).encode())
    h.update(''.join(d['vtype']).encode())
    h.update(str(d['qmat']).encode())
    h.update(str(d['xmat']).encode())
    h.update(str(d['nlmi']).encode())
    return h.hexdigest()


def formula_diff(f1, f2):
    a, b = formula_arrays(f1), formula_arrays(f2)
    out = []
    for k in a:
        x, y = a[k], b[k]
        if isinstance(x, np.ndarray):
            if x.shape != y.shape or not np.array_equal(x, y):
                out.append(k)
        elif x != y:
            out.append(k)
    return out


# ---------------------------------------------------------------- audits

def audit_solution(f, x, objval=None, tol=1e-6, int_tol=1e-5):
    """Check a solver vector against the compiled program.  Returns list of
    (kind, magnitude) violations."""
    bad = []
    x = np.asarray(x, dtype=float)
    A = sp.csr_matrix(f.linear)
    n = A.shape[1]
    if x.size < n:
        return [('short_vector', n - x.size)]
    xx = x[:n]
    scale = 1 + np.max(np.abs(xx)) if xx.size else 1
    lb, ub = np.asarray(f.lb, float), np.asarray(f.ub, float)
    vt = np.asarray(f.vtype)
    isb = vt == 'B'
    lbe = np.where(isb, np.maximum(lb, 0), lb)
    ube = np.where(isb, np.minimum(ub, 1), ub)
    v = np.max(np.maximum(lbe - xx, 0), initial=0)
    if v > tol * scale:
        bad.append(('lb', float(v)))
    v = np.max(np.maximum(xx - ube, 0), initial=0)
    if v > tol * scale:
        bad.append(('ub', float(v)))
    r = A @ xx - np.asarray(f.const, float)
    rs = 1 + np.abs(A) @ np.abs(xx)
    sense = np.asarray(f.sense)
    ineq = sense == 0
    if ineq.any():
        v = np.max(r[ineq] / rs[ineq], initial=0)
        if v > tol:
            bad.append(('row_le', float(v)))
    if (~ineq).any():
        v = np.max(np.abs(r[~ineq]) / rs[~ineq], initial=0)
        if v > tol:
            bad.append(('row_eq', float(v)))
    nonc = vt != 'C'
    if nonc.any():
        v = np.max(np.abs(xx[nonc] - np.round(xx[nonc])), initial=0)
        if v > int_tol:
            bad.append(('integrality', float(v)))
    for q in getattr(f, 'qmat', []) or []:
        head = xx[q[0]]
        nr = np.linalg.norm(xx[list(q[1:])])
        if nr - head > 10 * tol * (1 + nr):
            bad.append(('soc', float(nr - head)))
    for e in getattr(f, 'xmat', []) or []:
        # rsome/ECOS convention: (x0, x1, x2): x2*exp(x0/x2) <= x1, x2 > 0
        a0, a1, a2 = xx[e[0]], xx[e[1]], xx[e[2]]
        sc = 1 + abs(a0) + abs(a1) + abs(a2)
        if a2 < -10 * tol * sc or a1 < -10 * tol * sc:
            bad.append(('exp_sign', float(min(a1, a2))))
        elif a2 > 1e-6 * sc and a1 > 1e-12:
            # two equivalent forms; the cone is violated only if both are (each of them is
            # hypersensitive in one corner of the cone)
            lhs = a2 * np.exp(min(a0 / a2, 700))
            v1 = (lhs - a1) / (1 + abs(a1) + abs(lhs))
            v2 = (a0 - a2 * np.log(a1 / a2)) / sc
            if min(v1, v2) > 20 * tol:
                bad.append(('exp', float(min(v1, v2))))
        else:
            if a0 > 100 * tol * sc:
                bad.append(('exp_degenerate', float(a0)))
    if objval is not None and f.obj is not None:
        o = float(np.asarray(f.obj).reshape(-1)[:n] @ xx)
        if abs(o - objval) > 1e-6 * (1 + abs(o)):
            bad.append(('objval', float(abs(o - objval))))
    return bad


def close(a, b, rtol=1e-6, atol=1e-7):
    return abs(a - b) <= atol + rtol * max(abs(a), abs(b))


def rstr(rng, choices):
    return choices[int(rng.integers(len(choices)))]


def exc_name(e):
    return type(e).__name__


def user_array(a, mode=None):
    """An ndarray as a user might hand it over: read-only, optionally a strided view,
    Fortran-ordered, float32/int typed (only when exactly representable) or a scipy
    sparse matrix.  The numeric content is unchanged."""
    a = np.array(a, dtype=float)
    if mode == 'strided' and a.ndim >= 1 and a.size:
        big = np.zeros(a.shape[:-1] + (2 * a.shape[-1],))
        big[..., ::2] = a
        a = big[..., ::2]
    elif mode == 'fortran' and a.ndim == 2:
        a = np.asfortranarray(a)
    elif mode == 'f32':
        b = a.astype(np.float32)
        if np.array_equal(b.astype(float), a):
            a = b
    elif mode == 'int':
        if np.all(a == np.round(a)) and np.all(np.abs(a) < 1e9):
            a = a.astype(np.int64)
    elif mode == 'sparse' and a.ndim == 2:
        # a matrix as a user may well have it: some zeros stored explicitly, csr / csc / coo
        # by the content (deterministic), index and value buffers owned by the user
        r_, c_ = np.nonzero(a)
        zr, zc = np.nonzero(a == 0)
        keep = [(i + j) % 3 == 0 for i, j in zip(zr, zc)]
        zr, zc = zr[keep], zc[keep]
        rows = np.concatenate([r_, zr])
        cols = np.concatenate([c_, zc])
        data = np.concatenate([a[r_, c_], np.zeros(len(zr))])
        m = sp.coo_matrix((data, (rows, cols)), shape=a.shape)
        kind = int(abs(a).sum() * 100) % 4
        if kind in (0, 1):
            m = m.tocsr()          # conversion keeps explicitly stored zeros
        elif kind == 2:
            m = m.tocsc()
        return m
    if isinstance(a, np.ndarray):
        a.flags.writeable = False
    return a


def solver_library_error(e):
    """True when an exception comes out of a solver library (not out of RSOME's own code): the
    innermost Python frame is outside the rsome package, or it is a GurobiError.  Such an
    exception is a solver-level failure (e.g. Gurobi status NUMERIC without a solution makes
    the retrieval of X raise) and says nothing about the property being monitored."""
    import traceback
    if type(e).__name__ == 'GurobiError':
        return True
    tb = traceback.extract_tb(e.__traceback__)
    if not tb:
        return False
    inner = tb[-1].filename
    in_rsome = (os.sep + 'rsome' + os.sep) in inner and 'site-packages' not in inner
    in_harness = (os.sep + 'rv' + os.sep) in inner
    return not in_rsome and not in_harness and any(
        k in inner for k in ('gurobipy', 'ortools', 'ecos', 'highspy', '_highs'))


def definitive_failure(sname, status):
    """True when the interface's status says infeasible/unbounded (not a numerical give-up)."""
    st = str(status)
    if sname in ('def', 'lpg'):
        return st in ('2', '3')
    if sname == 'ort':
        return st in ('2', '3')
    if sname == 'grb':
        return st in ('3', '4', '5')
    if sname == 'eco':
        low = st.lower()
        return ('infeasible' in low or 'unbounded' in low) and 'inaccurate' not in low
    return False
