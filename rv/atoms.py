"""Closed-form evaluators of RSOME's convex/concave atoms and their RSOME
spelling.  Each atom: curv (+1 convex, -1 concave), kind ('scalar' maps a
vector to a scalar, 'elem' is element-wise), cone class, domain test, NumPy
value and the expression builder."""
import numpy as np


ARR = [None]      # optional callback turning a matrix into a guarded user array


ARRI = [None]     # same for integer parameter arrays (exponents, weights)


def _ia(v):
    """integer parameters as the user's ndarray (guarded) or, every other time, as a list."""
    if ARRI[0] is not None and isinstance(v, list) and (sum(v) + len(v)) % 2 == 0:
        return ARRI[0](np.array(v))
    return v


def _q(pr):
    a = np.array(pr['Q'], float)
    return ARR[0](a) if ARR[0] is not None else a


def _p(params):
    p = params['p']
    return p[0] / p[1] if isinstance(p, (list, tuple)) else float(p)


def _pw(params):
    return np.array(params['p'], float) / np.array(params['q'], float)


ATOMS = {
    'abs': dict(curv=1, kind='elem', cone='L',
                val=lambda u, pr: np.abs(u), build=lambda rso, e, pr: abs(e)),
    'norm1': dict(curv=1, kind='scalar', cone='L',
                  val=lambda u, pr: np.abs(u).sum(), build=lambda rso, e, pr: rso.norm(e, 1)),
    'norminf': dict(curv=1, kind='scalar', cone='L',
                    val=lambda u, pr: np.abs(u).max(),
                    build=lambda rso, e, pr: rso.norm(e, 'inf') if pr.get('sp', 0) == 0
                    else rso.norm(e, np.inf)),
    'norm2': dict(curv=1, kind='scalar', cone='Q',
                  val=lambda u, pr: np.sqrt((u ** 2).sum()),
                  build=lambda rso, e, pr: rso.norm(e) if pr.get('sp', 0) == 0 else rso.norm(e, 2)),
    'square': dict(curv=1, kind='elem', cone='Q',
                   val=lambda u, pr: u ** 2, build=lambda rso, e, pr: rso.square(e)),
    'sumsqr': dict(curv=1, kind='scalar', cone='Q',
                   val=lambda u, pr: (u ** 2).sum(), build=lambda rso, e, pr: rso.sumsqr(e)),
    'quad': dict(curv=1, kind='scalar', cone='Q',
                 val=lambda u, pr: float(u @ np.array(pr['Q']) @ u),
                 build=lambda rso, e, pr: rso.quad(e, _q(pr))),
    'nquad': dict(curv=-1, kind='scalar', cone='Q',
                  val=lambda u, pr: float(u @ np.array(pr['Q']) @ u),
                  build=lambda rso, e, pr: rso.quad(e, _q(pr))),
    'pnorm': dict(curv=1, kind='scalar', cone='Q',
                  val=lambda u, pr: float(np.sum(np.abs(u) ** _p(pr)) ** (1 / _p(pr))),
                  build=lambda rso, e, pr: rso.pnorm(e, tuple(pr['p']) if isinstance(pr['p'], list)
                                                     else pr['p'])
                  if pr.get('sp', 0) == 0 or isinstance(pr['p'], list) else rso.norm(e, pr['p'])),
    'pnormx': dict(curv=1, kind='scalar', cone='X',
                   val=lambda u, pr: float(np.sum(np.abs(u) ** _p(pr)) ** (1 / _p(pr))),
                   build=lambda rso, e, pr: rso.pnorm(e, tuple(pr['p']) if isinstance(pr['p'], list)
                                                      else pr['p'], 'exc')),
    'power': dict(curv=1, kind='elem', cone='Q',
                  val=lambda u, pr: np.abs(u) ** _pw(pr),
                  build=lambda rso, e, pr: rso.power(e, np.array(pr['p']) if isinstance(
                      pr['p'], list) else pr['p'], np.array(pr['q']) if isinstance(
                      pr['q'], list) else pr['q'])),
    'gmean': dict(curv=-1, kind='scalar', cone='Q', dom=lambda u, pr: np.all(u >= -1e-7),
                  val=lambda u, pr: float(np.prod(np.maximum(u, 0) ** (
                      np.array(pr['beta'], float) / np.sum(pr['beta'])))),
                  build=lambda rso, e, pr: rso.gmean(e, _ia(pr['beta'])) if not pr.get('unit')
                  else rso.gmean(e)),
    'exp': dict(curv=1, kind='elem', cone='X',
                val=lambda u, pr: np.exp(u), build=lambda rso, e, pr: rso.exp(e)),
    'log': dict(curv=-1, kind='elem', cone='X', dom=lambda u, pr: np.all(u > 0),
                val=lambda u, pr: np.log(np.maximum(u, 1e-300)),
                build=lambda rso, e, pr: rso.log(e)),
    'pexp': dict(curv=1, kind='elem', cone='X',
                 val=lambda u, pr: pr['scale'] * np.exp(u / pr['scale']),
                 build=lambda rso, e, pr: rso.pexp(e, np.array(pr['scale']))),
    'plog': dict(curv=-1, kind='elem', cone='X', dom=lambda u, pr: np.all(u > 0),
                 val=lambda u, pr: pr['scale'] * np.log(np.maximum(u, 1e-300) / pr['scale']),
                 build=lambda rso, e, pr: rso.plog(e, np.array(pr['scale']))),
    'entropy': dict(curv=-1, kind='scalar', cone='X', dom=lambda u, pr: np.all(u >= -1e-7),
                    val=lambda u, pr: float(-np.sum(np.maximum(u, 1e-300) *
                                                    np.log(np.maximum(u, 1e-300)))),
                    build=lambda rso, e, pr: rso.entropy(e)),
    'expsum': dict(curv=1, kind='scalar', cone='X',
                   val=lambda u, pr: float(np.exp(u).sum()),
                   build=lambda rso, e, pr: _sum1d(rso.exp(e), e)),
    'logsum': dict(curv=-1, kind='scalar', cone='X', dom=lambda u, pr: np.all(u > 0),
                   val=lambda u, pr: float(np.log(np.maximum(u, 1e-300)).sum()),
                   build=lambda rso, e, pr: _sum1d(rso.log(e), e)),
    'softplus': dict(curv=1, kind='elem', cone='X',
                     val=lambda u, pr: np.logaddexp(0, u),
                     build=lambda rso, e, pr: rso.softplus(e)),
}

LP_ATOMS = [a for a, d in ATOMS.items() if d['cone'] == 'L']
SOC_ATOMS = [a for a, d in ATOMS.items() if d['cone'] == 'Q']
EXP_ATOMS = [a for a, d in ATOMS.items() if d['cone'] == 'X']


def random_params(rng, atom, m):
    """Admissible parameters for an atom applied to a length-m argument."""
    if atom in ('quad', 'nquad'):
        r = int(rng.integers(1, m + 1))
        G = np.round(rng.uniform(-1, 1, (m, r)), 2)
        Q = G @ G.T
        if rng.random() < 0.5:
            Q = Q + 0.2 * np.eye(m)
        Q = np.round(Q, 4)
        Q = (Q + Q.T) / 2
        return {'Q': (Q if atom == 'quad' else -Q).tolist()}
    if atom == 'pnorm':
        r = rng.random()
        if r < 0.5:
            return {'p': int(rng.integers(3, 9)), 'sp': int(rng.integers(2))}
        b = int(rng.integers(2, 8))
        a = int(rng.integers(b + 1, 13))
        return {'p': [a, b]}
    if atom == 'pnormx':
        r = rng.random()
        if r < 0.6:
            return {'p': float(np.round(rng.uniform(1.3, 6.0), 2))}
        b = int(rng.integers(2, 6))
        return {'p': [int(rng.integers(b + 1, 10)), b]}
    if atom == 'power':
        if rng.random() < 0.6:
            q = int(rng.integers(1, 6))
            p = int(rng.integers(q + 1, 10))
            return {'p': p, 'q': q}
        q = rng.integers(1, 4, m)
        p = q + rng.integers(1, 5, m)
        return {'p': p.tolist(), 'q': q.tolist()}
    if atom == 'gmean':
        if rng.random() < 0.25:
            return {'beta': [1] * m, 'unit': True}
        beta = rng.integers(1, 8, m)
        if rng.random() < 0.3:
            beta = beta * int(rng.integers(2, 4))      # weights with a common factor
        return {'beta': beta.tolist()}
    if atom in ('pexp', 'plog'):
        return {'scale': float(np.round(rng.uniform(0.4, 2.5), 2))}
    if atom in ('norminf', 'norm2'):
        return {'sp': int(rng.integers(2))}
    return {}


def in_domain(atom, u, params):
    d = ATOMS[atom].get('dom')
    return True if d is None else bool(d(np.asarray(u, float), params))


def value(atom, u, params):
    return ATOMS[atom]['val'](np.asarray(u, float), params)


def _sum1d(cvx, e):
    """Sum of an element-wise exp/log over its (1-D) argument, written as .sum(), .sum(axis=0)
    or .sum(axis=-1) - the spelling follows the size of the argument so that a replay repeats
    it."""
    n = int(getattr(e, 'size', 1))
    k = (n - 2) % 3                     # sizes 2, 5, ..: axis=0; 3, 6, ..: plain; 4, 7, ..: axis=-1
    if len(getattr(e, 'shape', (1,))) != 1 or n < 2 or k == 1:
        return cvx.sum()
    return cvx.sum(axis=0) if k == 0 else cvx.sum(axis=-1)


def build(atom, rso, e, params):
    return ATOMS[atom]['build'](rso, e, params)
