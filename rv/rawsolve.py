"""Direct calls of the installed solvers on a compiled program, written
independently of RSOME's interface modules.  Used to attribute a failure to the
interface layer (RSOME) or to the third-party solver (trusted base)."""
import numpy as np
import scipy.sparse as sp
from scipy import optimize as opt


def _arrays(f):
    A = sp.csr_matrix(f.linear)
    b = np.asarray(f.const, float)
    sense = np.asarray(f.sense)
    lb = np.asarray(f.lb, float).copy()
    ub = np.asarray(f.ub, float).copy()
    vt = np.asarray(f.vtype)
    isb = vt == 'B'
    lb[isb] = np.maximum(lb[isb], 0)
    ub[isb] = np.minimum(ub[isb], 1)
    c = np.asarray(f.obj, float).reshape(-1)
    return A, b, sense, lb, ub, vt, c


def highs(f):
    A, b, sense, lb, ub, vt, c = _arrays(f)
    if getattr(f, 'qmat', None) or getattr(f, 'xmat', None):
        return ('unsupported', None, None)
    if np.any(lb > ub):
        return ('infeasible', None, None)
    cl = np.where(sense == 1, b, -np.inf)
    if np.all(vt == 'C'):
        eqm, iqm = sense == 1, sense == 0
        try:
            res = opt.linprog(c, A_ub=A[iqm] if iqm.any() else None,
                              b_ub=b[iqm] if iqm.any() else None,
                              A_eq=A[eqm] if eqm.any() else None,
                              b_eq=b[eqm] if eqm.any() else None,
                              bounds=list(zip(lb, ub)))
        except Exception as e:
            return ('failed', None, str(e)[:80])
        if res.status == 0:
            return ('optimal', float(c @ res.x), res.x)
        return ({2: 'infeasible', 3: 'unbounded'}.get(res.status, 'failed'), None, None)
    try:
        res = opt.milp(c, constraints=opt.LinearConstraint(A, cl, b),
                       bounds=opt.Bounds(lb, ub), integrality=(vt != 'C').astype(int))
    except Exception as e:
        return ('failed', None, str(e)[:80])
    if res.status == 0:
        return ('optimal', float(c @ res.x), res.x)
    return ({2: 'infeasible', 3: 'unbounded'}.get(res.status, 'failed'), None, None)


def ortools(f):
    from ortools.linear_solver import pywraplp
    A, b, sense, lb, ub, vt, c = _arrays(f)
    if getattr(f, 'qmat', None) or getattr(f, 'xmat', None):
        return ('unsupported', None, None)
    s = pywraplp.Solver.CreateSolver('GLOP' if np.all(vt == 'C') else 'SCIP')
    inf = s.infinity()
    xs = []
    for i in range(A.shape[1]):
        lo = -inf if np.isinf(lb[i]) else float(lb[i])
        hi = inf if np.isinf(ub[i]) else float(ub[i])
        xs.append(s.NumVar(lo, hi, 'v%d' % i) if vt[i] == 'C' else s.IntVar(lo, hi, 'v%d' % i))
    for j in range(A.shape[0]):
        ct = s.Constraint(float(b[j]) if sense[j] == 1 else -inf, float(b[j]))
        row = A.getrow(j)
        for k, v in zip(row.indices, row.data):
            ct.SetCoefficient(xs[k], float(v))
    o = s.Objective()
    for i in range(A.shape[1]):
        o.SetCoefficient(xs[i], float(c[i]))
    o.SetMinimization()
    st = s.Solve()
    if st == pywraplp.Solver.OPTIMAL:
        x = np.array([v.solution_value() for v in xs])
        return ('optimal', float(c @ x), x)
    return ({pywraplp.Solver.INFEASIBLE: 'infeasible',
             pywraplp.Solver.UNBOUNDED: 'unbounded'}.get(st, 'failed'), None, None)


def gurobi(f):
    import gurobipy as gp
    A, b, sense, lb, ub, vt, c = _arrays(f)
    if getattr(f, 'xmat', None):
        return ('unsupported', None, None)
    try:
        env = gp.Env(params={'OutputFlag': 0})
        m = gp.Model(env=env)
        xs = [m.addVar(lb=-gp.GRB.INFINITY if np.isinf(lb[i]) else float(lb[i]),
                       ub=gp.GRB.INFINITY if np.isinf(ub[i]) else float(ub[i]),
                       vtype={'C': gp.GRB.CONTINUOUS, 'B': gp.GRB.BINARY,
                              'I': gp.GRB.INTEGER}[vt[i]], obj=float(c[i]))
              for i in range(A.shape[1])]
        m.update()
        for j in range(A.shape[0]):
            row = A.getrow(j)
            e = gp.LinExpr([float(v) for v in row.data], [xs[k] for k in row.indices])
            if sense[j] == 1:
                m.addConstr(e == float(b[j]))
            else:
                m.addConstr(e <= float(b[j]))
        for q in getattr(f, 'qmat', []) or []:
            m.addConstr(gp.quicksum(xs[k] * xs[k] for k in q[1:]) <= xs[q[0]] * xs[q[0]])
        m.Params.DualReductions = 0
        m.Params.TimeLimit = 30
        m.Params.Threads = 1
        if getattr(f, 'qmat', None):
            m.Params.BarQCPConvTol = 1e-10     # the default stops barrier 1e-4 early on some QCPs
        m.optimize()
        st = m.Status
        if st == gp.GRB.OPTIMAL:
            x = np.array([v.X for v in xs])
            return ('optimal', float(m.ObjVal), x)
        return ({gp.GRB.INFEASIBLE: 'infeasible', gp.GRB.UNBOUNDED: 'unbounded',
                 gp.GRB.INF_OR_UNBD: 'inf_or_unbd'}.get(st, 'failed'), None, None)
    except Exception as e:
        return ('failed', None, str(e)[:80])


def ecos(f):
    import ecos as E
    A, b, sense, lb, ub, vt, c = _arrays(f)
    mi = {}
    if np.any(vt != 'C'):
        mi = {'bool_vars_idx': [int(i) for i in np.where(vt == 'B')[0]],
              'int_vars_idx': [int(i) for i in np.where(vt == 'I')[0]],
              'mi_max_iters': 10000000}
    n = A.shape[1]
    eq = np.where(sense == 1)[0]
    iq = np.where(sense == 0)[0]
    rowsG, h = [], []
    if len(iq):
        rowsG.append(A[iq])
        h.append(b[iq])
    I = sp.identity(n, format='csr')
    fl = np.where(np.isfinite(lb))[0]
    fu = np.where(np.isfinite(ub))[0]
    if len(fl):
        rowsG.append(-I[fl])
        h.append(-lb[fl])
    if len(fu):
        rowsG.append(I[fu])
        h.append(ub[fu])
    nl = sum(r.shape[0] for r in rowsG)
    qd = []
    for q in getattr(f, 'qmat', []) or []:
        rowsG.append(-I[list(q)])
        h.append(np.zeros(len(q)))
        qd.append(len(q))
    ne = 0
    for e in getattr(f, 'xmat', []) or []:
        rowsG.append(-I[list(e)])
        h.append(np.zeros(3))
        ne += 1
    if not rowsG:
        return ('failed', None, 'no inequality rows')
    G = sp.csc_matrix(sp.vstack(rowsG))
    h = np.concatenate(h)
    kw = {}
    if len(eq):
        Ae = A[eq]
        keep = np.array(np.abs(Ae).sum(axis=1)).reshape(-1) > 0
        if np.any(~keep & (np.abs(b[eq]) > 1e-12)):
            return ('infeasible', None, None)
        if keep.any():
            kw = {'A': sp.csc_matrix(Ae[keep]), 'b': b[eq][keep]}
    try:
        kw.update(mi)
        if mi:
            kw['mi_verbose'] = False
        sol = E.solve(c, G, h, {'l': nl, 'q': qd, 'e': ne}, verbose=False, **kw)
    except Exception as ex:
        return ('failed', None, str(ex)[:80])
    flag = sol['info']['exitFlag']
    if flag == 0:
        return ('optimal', float(sol['info']['pcost']), sol['x'])
    return ({1: 'infeasible', 2: 'unbounded', 10: 'inaccurate'}.get(flag, 'failed'), None, None)


RAW = {'def': highs, 'lpg': highs, 'ort': ortools, 'grb': gurobi, 'eco': ecos}
