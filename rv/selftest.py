"""Self-test of the monitors against hand-written source mutations (string replacements on a
scratch copy of /repo).  These complement the independently produced changes in seeded/: they
are the mutations listed per property in DESIGN.md section 4.

  python -m rv.selftest [--only C01,C08] [--tier quick]

For every mutant: the scratch copy is patched, the property's check is run against it
(RSOME_VERIF_REPO), and the verdict is printed; a mutant that is not caught is listed at the
end (exit 1)."""
import argparse
import json
import os
import shutil
import subprocess
import sys

HERE = os.path.dirname(os.path.dirname(os.path.abspath(__file__)))

# (name, property, file, old, new)
MUTANTS = [
    ('le_to_rc drops sign bounds of multipliers', 'C01', 'rsome/lp.py',
     "            bounds.append(dual_var[:, index_neg] >= 0)", "            pass"),
    ('le_to_rc flips the sign of the affine part', 'C01', 'rsome/lp.py',
     "        constr1 = (dual_var@support.obj +\n                   self.affine.reshape(num_constr) <= 0)",
     "        constr1 = (dual_var@support.obj -\n                   self.affine.reshape(num_constr) <= 0)"),
    ('ro st: equality keeps only one half', 'C01', 'rsome/ro.py',
     "                    self.all_constr.append(left_constr)\n                    self.all_constr.append(right_constr)",
     "                    self.all_constr.append(left_constr)"),
    ('forall does not reset the support model', 'C09', 'rsome/lp.py',
     "        sup_model = self.rand_model\n        sup_model.reset()", "        sup_model = self.rand_model"),
    ('le_to_rc conservative (abs of support objective)', 'C02', 'rsome/lp.py',
     "        constr1 = (dual_var@support.obj +", "        constr1 = (dual_var@abs(support.obj) +"),
    ('decision rule ignores its mask', 'C02', 'rsome/lp.py',
     "                row_ind = np.where(self.depend.flatten() == 1)[0]",
     "                self.depend = np.ones_like(self.depend)\n                num_ones = self.depend.sum()\n                var_coeff = self.model.dvar(num_ones)\n                self.var_coeff = var_coeff\n                row_ind = np.where(self.depend.flatten() == 1)[0]"),
    ('dro_to_roc drops beta for events', 'C03', 'rsome/dro.py',
     "                        right = alpha[s] + (z @ beta[:, event_indices]).sum()",
     "                        right = alpha[s]"),
    ('mix_support forgets the perspective factor', 'C03', 'rsome/dro.py',
     "                      p[indices].sum() * exp_support.const)", "                      exp_support.const)"),
    ('E constraints treated as worst-case ones', 'C04', 'rsome/dro.py',
     "            elif constr.ctype == 'E':\n                ro_constr_list = self.dro_to_roc(constr)\n            else:\n                raise ValueError('Unknown constraints.')",
     "            elif constr.ctype == 'E':\n                ro_constr_list = self.ro_to_roc(constr)\n            else:\n                raise ValueError('Unknown constraints.')"),
    ('sum ignores negative axis', 'C05', 'rsome/lp.py',
     "        indices = self.sparray.sum(axis=axis)\n\n        linear = sv_to_csr(indices) @ self.linear\n        const = self.const.sum(axis=axis)",
     "        indices = self.sparray.sum(axis=abs(axis) if isinstance(axis, int) else axis)\n\n        linear = sv_to_csr(indices) @ self.linear\n        const = self.const.sum(axis=axis)"),
    ('RoAffine.__rmul__ uses the wrong operand order', 'C05', 'rsome/lp.py',
     "        new_affine = other * self.affine\n        if isinstance(other, Real):\n            other = np.array([other])\n\n        new_raffine = sparse_mul(other, self) @ self.raffine",
     "        new_affine = other * self.affine\n        if isinstance(other, Real):\n            other = np.array([other])\n\n        new_raffine = sparse_mul(np.ones(np.shape(other)), self) @ self.raffine"),
    ('inf-norm constraints dropped', 'C06', 'rsome/lp.py',
     "                elif constr.xtype == 'I':\n                    affine_in = constr.affine_in * constr.multiplier\n                    aux = self.dvar(1, aux=True)\n                    self.aux_constr.append(affine_in <= aux)",
     "                elif constr.xtype == 'I':\n                    affine_in = constr.affine_in * constr.multiplier\n                    aux = self.dvar(1, aux=True)\n                    self.aux_constr.append(affine_in <= aux + 1e3)"),
    ('square forgets the multiplier', 'C06', 'rsome/socp.py',
     "                    aux3 = self.dvar(constr.affine_out.shape, aux=True)\n                    affine_in = constr.affine_in * constr.multiplier",
     "                    aux3 = self.dvar(constr.affine_out.shape, aux=True)\n                    affine_in = constr.affine_in"),
    ('log constraint swaps its cone arguments', 'C06', 'rsome/gcp.py',
     "                            exp_cone_constr = ExpConstr(constr.model,\n                                                        exprs[1], exprs[0], 1)\n                            self.exp_constr.append(exp_cone_constr)\n                    elif constr.xtype == 'F':",
     "                            exp_cone_constr = ExpConstr(constr.model,\n                                                        exprs[0], exprs[1], 1)\n                            self.exp_constr.append(exp_cone_constr)\n                    elif constr.xtype == 'F':"),
    # not expected to be caught: the changed constraint is a LinConstr where the cone code
    # expects a convex one, so every padded power/p-norm atom raises AttributeError (loud)
    ('IPCone padding drops the absolute value of the left side (loud)', 'C07-equivalent', 'rsome/lp.py',
     "            return IPCone(s, right, beta), [s >= abs(self.left)]",
     "            return IPCone(s, right, beta), [s >= self.left]"),
    ('p-norm (a,b) exponents swapped', 'C07', 'rsome/socp.py',
     "                            beta = [b, a - b]", "                            beta = [a - b, b]"),
    ('integrality vector built in the wrong order', 'C07', 'rsome/lp.py',
     "                vtype[item.first:item.first + item.size] = item_vtype",
     "                vtype[self.last - item.first - item.size:self.last - item.first] = item_vtype"),
    ('LP dual drops the sign flip of non-positive variables', 'C08', 'rsome/lp.py',
     "                dual_linear[indices_neg, :] = - dual_linear[indices_neg, :]\n                dual_const[indices_neg] = - dual_const[indices_neg]",
     "                pass"),
    ('exp dual block with a wrong sign', 'C08', 'rsome/gcp.py',
     "                data = [-1, 1, -1, -1] * num_xc", "                data = [-1, 1, -1, 1] * num_xc"),
    ('gcp reset forgets exp_constr', 'C09', 'rsome/gcp.py',
     "        self.cone_constr = []\n        self.exp_constr = []", "        self.cone_constr = []"),
    ('ro.Model.st does not invalidate the cached formula', 'C09', 'rsome/ro.py',
     "                raise TypeError('Unknown type of constraints')\n\n        self.pupdate = True\n        self.dupdate = True",
     "                raise TypeError('Unknown type of constraints')\n\n        self.dupdate = True"),
    ('Convex.__rsub__ does not negate', 'C10', 'rsome/lp.py',
     "    def __rsub__(self, other):\n\n        return (-self).__add__(other)\n\n    def __mul__(self, other):\n\n        if not isinstance(other, Real):\n            raise TypeError('Incorrect syntax.')\n\n        if self.xtype in 'AMNGIEXLPFKODTC':",
     "    def __rsub__(self, other):\n\n        return self.__add__(other)\n\n    def __mul__(self, other):\n\n        if not isinstance(other, Real):\n            raise TypeError('Incorrect syntax.')\n\n        if self.xtype in 'AMNGIEXLPFKODTC':"),
    ('DecConvex.__ge__ skips the curvature test', 'C10', 'rsome/lp.py',
     "    def __ge__(self, other):\n\n        constr = super().__ge__(other)\n\n        return DecCvxConstr(constr, self.event_adapt)",
     "    def __ge__(self, other):\n\n        right = other - self\n        constr = CvxConstr(right.model, right.affine_in, right.affine_out,\n                           right.multiplier, right.xtype, params=right.params)\n\n        return DecCvxConstr(constr, self.event_adapt)"),
    ('OR-Tools binaries ignore user bounds', 'C11', 'rsome/ort_solver.py',
     "          solver.IntVar(max(0, lb[i]), min(1, ub[i]),", "          solver.IntVar(0, 1,"),
    ('ECOS interface: wrong sign of lower bounds', 'C11', 'rsome/eco_solver.py',
     "                   -formula.lb[zlb_idx],", "                   formula.lb[zlb_idx],"),
    ('default LP interface returns numbers on failure', 'C11', 'rsome/lp.py',
     "            warnings.warn(msg)\n            return Solution('Scipy', np.nan, None, status, stime)\n    else:",
     "            warnings.warn(msg)\n            return Solution('Scipy', 0.0, np.zeros(A.shape[1]), status, stime)\n    else:"),
    ('dro Model.get drops the sign', 'C12', 'rsome/dro.py',
     "        return self.sign * self.solution.objval", "        return self.solution.objval"),
    ('RoAffine.__call__ off by one in the random vector', 'C12', 'rsome/lp.py',
     "        output = (raffine_value@rvec[:nrand]).reshape(self.shape) + affine_value",
     "        output = (raffine_value@np.roll(rvec, 1)[:nrand]).reshape(self.shape) + affine_value"),
    ('comb_set keyed on the first partition only', 'C13', 'rsome/subroutines.py',
     "    dc = {item: str(d1[item]) + '-' + str(d2[item])", "    dc = {item: str(d1[item]) + '-'"),
    ('rule_var uses the event count of the wrong variable', 'C13', 'rsome/dro.py',
     "                index.extend(list(start + size * edict[s] +\n                                  np.arange(size, dtype=int)))",
     "                index.extend(list(start + size * min(edict[s], 0) +\n                                  np.arange(size, dtype=int)))"),
    ('LinConstr.dual drops the objective sign', 'C14', 'rsome/lp.py',
     "            dual_sol = solution.y['pi'][self.model.ciarray == cidx] * self.model.sign",
     "            dual_sol = solution.y['pi'][self.model.ciarray == cidx]"),
    ('ECOS interface swaps upper and lower multipliers', 'C14', 'rsome/eco_solver.py',
     "        lpi[zlb_idx] = sol['z'][num_ineq + np.arange(num_zlb)]\n        upi[zub_idx] = - sol['z'][num_ineq + num_zlb + np.arange(num_zub)]",
     "        upi[zlb_idx] = sol['z'][num_ineq + np.arange(num_zlb)]\n        lpi[zub_idx] = - sol['z'][num_ineq + num_zlb + np.arange(num_zub)]"),
    ('VarSub.__ge__ builds an upper bound', 'C15', 'rsome/lp.py',
     "            return Bounds(lower.model, bound_indices, bound_values, 'L')",
     "            return Bounds(lower.model, bound_indices, bound_values, 'U')"),
    ('maxmin forgets to flip the sign', 'C15', 'rsome/ro.py',
     "        self.obj_support = sup_model.do_math(primal=False, obj=False)\n        self.sign = - 1",
     "        self.obj_support = sup_model.do_math(primal=False, obj=False)\n        self.sign = 1"),
    ('lp_export writes <= for equalities', 'C16', 'rsome/lp.py',
     "            string += ' <= ' if self.sense[i] == 0 else ' = '", "            string += ' <= '"),
    ('lp_export trims a leading minus', 'C16', 'rsome/lp.py',
     "            if each_line[:2] == '+ ':\n                each_line = each_line[2:]",
     "            if each_line[:2] in ('+ ', '- '):\n                each_line = each_line[2:]"),
    ('showqc marks the cone head with +1', 'C16', 'rsome/socp.py',
     "        values = np.concatenate([[-1.0] + [1.0]*(len(item)-1)", "        values = np.concatenate([[1.0] + [1.0]*(len(item)-1)"),
    # not expected to be caught: lp.Model.st still refuses the constraint when the program is
    # compiled, so no model is produced (C17 is read as 'raises instead of producing a model')
    ('ro st accepts constraints of another model (refused later at do_math)', 'C17-equivalent', 'rsome/ro.py',
     "                if (constr.model is not self.rc_model) or \\\n                        (constr.model.mtype != 'R'):\n                    raise ValueError('Models mismatch.')",
     "                if constr.model.mtype != 'R':\n                    raise ValueError('Models mismatch.')"),
    ('objective can be redefined in dro', 'C17', 'rsome/dro.py',
     "        if self.obj is not None:\n            raise SyntaxError('Redefinition of the objective is not allowed.')\n\n        if not isinstance(obj, (Real, PiecewiseConvex)):\n            if obj.size > 1:\n                raise ValueError('Incorrect function dimension.')\n\n        check_objective(obj, 1)\n        self.obj = obj\n        self.sign = 1",
     "        if not isinstance(obj, (Real, PiecewiseConvex)):\n            if obj.size > 1:\n                raise ValueError('Incorrect function dimension.')\n\n        check_objective(obj, 1)\n        self.obj = obj\n        self.sign = 1"),
    ('to_socp constant of the Taylor block', 'C18', 'rsome/gcp.py',
     "        data += [20/2**degree/24, 23/24, 0.25, 1/24, -1]", "        data += [19/2**degree/24, 23/24, 0.25, 1/24, -1]"),
    ('to_socp drops the bounds of original variables', 'C18', 'rsome/gcp.py',
     "            lb = np.concatenate((lb, more_lb))", "            lb = np.concatenate((lb * 0 - np.inf, more_lb))"),
    ('Affine.__add__ resizes a user sparse matrix in place', 'C19', 'rsome/lp.py',
     "        array = np.array(array.todense()) if sp.issparse(array) else array",
     "        array = np.array(array.todense()) if sp.issparse(array) else array"),
    ('flat() does not recurse', 'C15', 'rsome/subroutines.py',
     "            flat_list.extend(flat(item))", "            flat_list.extend(item)"),
    ('vert_comb takes the lower block\'s column indices from the upper one', 'C18', 'rsome/subroutines.py',
     "    indices = np.concatenate((upper.indices, lower.indices))",
     "    indices = np.concatenate((upper.indices, np.sort(lower.indices)))"),
    ('formulation draws from the global RNG', 'C19', 'rsome/lp.py',
     "            vtype = np.array(['C'] * self.last)",
     "            np.random.rand()\n            vtype = np.array(['C'] * self.last)"),
    ('check_numeric scales the user array in place', 'C19', 'rsome/subroutines.py',
     "    if isinstance(array, np.ndarray):\n        if not isinstance(array.flat[0], np.number):",
     "    if isinstance(array, np.ndarray) and array.dtype == float:\n        array *= 1.0000001\n    if isinstance(array, np.ndarray):\n        if not isinstance(array.flat[0], np.number):"),
]


def main():
    ap = argparse.ArgumentParser()
    ap.add_argument('--only', default=None)
    ap.add_argument('--tier', default='quick')
    a = ap.parse_args()
    only = set(a.only.split(',')) if a.only else None
    missed, bad_patch = [], []
    for k, (name, prop, fn, old, new) in enumerate(MUTANTS):
        if only and prop not in only:
            continue
        if prop.endswith('-equivalent'):
            continue
        if old == new:
            continue
        d = '/dev/shm/rsome-selftest-%d-%d' % (os.getpid(), k)
        os.makedirs(d)
        try:
            subprocess.run('git -C /repo archive HEAD | tar -x -C %s' % d, shell=True, check=True)
            p = os.path.join(d, fn)
            s = open(p).read()
            if s.count(old) != 1:
                print('[%s] %-55s PATTERN NOT FOUND (%d)' % (prop, name, s.count(old)))
                bad_patch.append(name)
                continue
            open(p, 'w').write(s.replace(old, new))
            rc = subprocess.run([sys.executable, '-c', 'import rsome'], cwd=d,
                                env=dict(os.environ, PYTHONPATH=d), capture_output=True).returncode
            if rc != 0:
                print('[%s] %-55s DOES NOT IMPORT' % (prop, name))
                bad_patch.append(name)
                continue
            env = dict(os.environ, RSOME_VERIF_REPO=d)
            r = subprocess.run([os.path.join(HERE, 'check'), prop, '--tier', a.tier, '--no-evidence'],
                               cwd=HERE, env=env, capture_output=True, text=True, timeout=7200)
            mech = [ln for ln in r.stdout.split('\n') if ln.startswith('violation mech')]
            verdict = {0: 'HELD', 1: 'VIOLATION', 3: 'INCONCLUSIVE'}.get(r.returncode, str(r.returncode))
            print('[%s] %-55s %s %s' % (prop, name, verdict, mech[0][22:130] if mech else ''))
            if r.returncode != 1:
                missed.append((prop, name))
        finally:
            shutil.rmtree(d, ignore_errors=True)
        sys.stdout.flush()
    print('not caught:', missed)
    print('unusable mutants:', bad_patch)
    sys.exit(1 if missed else 0)


if __name__ == '__main__':
    main()
