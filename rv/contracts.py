"""icontract post-conditions on RSOME's pure helper functions, attached from the
harness (no edit of the repository) by rebinding every reference held in a
rsome.* module namespace.  Each contract counts its evaluations in ctx."""
import sys

import numpy as np
import icontract

LAST_BROKEN = []
_CTX = [None]
_RNG = np.random.default_rng(12345)


class ContractBroken(Exception):
    def __init__(self, msg='', name='?'):
        super().__init__(msg)
        self.name = name


def _broken(name):
    def make():
        LAST_BROKEN.append(name)
        return ContractBroken('post-condition of %s failed' % name, name=name)
    return make


def _count(name):
    c = _CTX[0]
    if c is not None:
        c.count('contract:' + name)


def _size(shape):
    return int(np.prod(shape)) if len(shape) else 1


# ---- post-conditions (named functions; argument names match the targets)

def post_sparse_mul(ndarray, affine, result):
    _count('sparse_mul')
    v = _RNG.uniform(-1, 1, affine.size)
    want = (np.asarray(ndarray, dtype=float) * v.reshape(affine.shape)).flatten()
    got = result @ v
    return got.shape == want.shape and np.allclose(got, want, atol=1e-10)


def post_sp_matmul(ndarray, affine, shape, result):
    _count('sp_matmul')
    v = _RNG.uniform(-1, 1, affine.size)
    want = np.asarray(np.asarray(ndarray, dtype=float) @ v.reshape(affine.shape)).flatten()
    got = np.asarray(result @ v).flatten()
    return got.shape == want.shape and np.allclose(got, want, atol=1e-10)


def post_sp_lmatmul(ndarray, affine, shape, result):
    _count('sp_lmatmul')
    v = _RNG.uniform(-1, 1, affine.size)
    want = np.asarray(v.reshape(affine.shape) @ np.asarray(ndarray, dtype=float)).flatten()
    got = np.asarray(result @ v).flatten()
    return got.shape == want.shape and np.allclose(got, want, atol=1e-10)


def post_sp_trans(affine, result):
    _count('sp_trans')
    v = _RNG.uniform(-1, 1, affine.size)
    want = v.reshape(affine.shape).T.flatten()
    got = result @ v
    return got.shape == want.shape and np.allclose(got, want, atol=1e-12)


def post_sv_to_csr(array, result):
    _count('sv_to_csr')
    items = [array] if not isinstance(array, np.ndarray) else list(array.reshape(-1))
    n = items[0].nvar
    if result.shape != (len(items), n):
        return False
    import scipy.sparse as sps
    lens = [len(it.index) for it in items]
    rows = np.repeat(np.arange(len(items)), lens)
    cols = np.concatenate([np.asarray(it.index, dtype=int).reshape(-1) for it in items]) \
        if items else np.zeros(0, int)
    vals = np.concatenate([np.asarray(it.value, dtype=float).reshape(-1) for it in items]) \
        if items else np.zeros(0)
    want = sps.csr_matrix((vals, (rows, cols)), shape=(len(items), n))   # duplicates are summed
    diff = sps.csr_matrix(result) - want
    return diff.nnz == 0 or float(abs(diff).max()) <= 1e-12


def post_event_dict(event_set, result):
    _count('event_dict')
    want = {}
    for k, ev in enumerate(event_set):
        for s in ev:
            if s in want:
                return False
            want[s] = k
    return result == want


def post_comb_set(s1, s2, result):
    _count('comb_set')
    d1, d2 = {}, {}
    for k, ev in enumerate(s1):
        for s in ev:
            d1[s] = k
    for k, ev in enumerate(s2):
        for s in ev:
            d2[s] = k
    if set(d1) != set(d2):
        return True  # undefined input; nothing to demand
    blocks = {}
    for s in d1:
        blocks.setdefault((d1[s], d2[s]), set()).add(s)
    got = [frozenset(b) for b in result]
    if len(got) != len(set(got)):
        return False
    if sum(len(b) for b in result) != len(d1):
        return False
    return set(got) == {frozenset(b) for b in blocks.values()}


def post_flat(a_list, result):
    _count('flat')
    from collections.abc import Iterable

    def rec(a):
        out = []
        for it in a:
            if isinstance(it, Iterable):
                out.extend(rec(it))
            else:
                out.append(it)
        return out
    want = rec(a_list)
    return len(want) == len(result) and all(a is b for a, b in zip(want, result))


def _sp_equal(a, b):
    import scipy.sparse as sps
    a, b = sps.csr_matrix(a), sps.csr_matrix(b)
    if a.shape != b.shape:
        return False
    d = a - b
    return d.nnz == 0 or float(abs(d).max()) <= 1e-12


def _pad(m, ncol):
    import scipy.sparse as sps
    m = sps.csr_matrix(m)
    if m.shape[1] == ncol:
        return m
    return sps.hstack([m, sps.csr_matrix((m.shape[0], ncol - m.shape[1]))]).tocsr()


def post_vert_comb(upper, lower, result):
    _count('vert_comb')
    import scipy.sparse as sps
    n = max(upper.shape[1], lower.shape[1])
    return _sp_equal(result, sps.vstack([_pad(upper, n), _pad(lower, n)]))


def post_diag_comb(upper, lower, result):
    _count('diag_comb')
    import scipy.sparse as sps
    return _sp_equal(result, sps.block_diag([upper, lower]))


def post_add_linear(left, right, result):
    _count('add_linear')
    n = max(left.shape[1], right.shape[1])
    return _sp_equal(result, _pad(left, n) + _pad(right, n))


def post_index_array(shape, result):
    _count('index_array')
    shp = shape if isinstance(shape, tuple) else (int(shape),)
    want = np.arange(int(np.prod(shp)), dtype=int).reshape(shp)
    return result.shape == want.shape and np.array_equal(result, want)


def post_rso_broadcast(_ARGS, result):
    _count('rso_broadcast')
    from numbers import Real
    shapes, nums = [], []
    for a in _ARGS:
        if isinstance(a, (Real, np.ndarray)):
            arr = np.array(a)
            shapes.append(arr.shape)
            nums.append(arr)
        else:
            shapes.append(tuple(a.to_affine().shape))
            nums.append(None)
    bshape = np.broadcast_shapes(*shapes)
    n = int(np.prod(bshape)) if len(bshape) else 1
    if len(result) != n or any(len(t) != len(_ARGS) for t in result):
        return False
    for k, arr in enumerate(nums):
        if arr is None:
            continue
        want = np.broadcast_to(arr, bshape).reshape(-1)
        got = np.array([float(np.asarray(t[k])) for t in result])
        if not np.array_equal(got, want.astype(float)):
            return False
    return True


def _rebind(name, new, old):
    n = 0
    for mname, mod in list(sys.modules.items()):
        if mname == 'rsome' or mname.startswith('rsome.'):
            if getattr(mod, name, None) is old:
                setattr(mod, name, new)
                n += 1
    return n


_INSTALLED = set()


def _install(ctx, table):
    import rsome.subroutines as sub
    import rsome.lp  # noqa: F401  (make sure the importing modules exist)
    import rsome.dro  # noqa: F401
    import rsome.math  # noqa: F401
    import rsome.gcp  # noqa: F401
    import rsome.socp  # noqa: F401
    import rsome.ro  # noqa: F401
    _CTX[0] = ctx
    for name, post in table:
        if name in _INSTALLED:
            continue
        old = getattr(sub, name)
        new = icontract.ensure(post, error=_broken(name))(old)
        n = _rebind(name, new, old)
        ctx.count('rebound:' + name, n)
        _INSTALLED.add(name)


def install_algebra(ctx):
    _install(ctx, [('sparse_mul', post_sparse_mul), ('sp_matmul', post_sp_matmul),
                   ('sp_lmatmul', post_sp_lmatmul), ('sp_trans', post_sp_trans),
                   ('sv_to_csr', post_sv_to_csr)])


def install_helpers(ctx, names):
    table = {'flat': post_flat, 'vert_comb': post_vert_comb, 'diag_comb': post_diag_comb,
             'add_linear': post_add_linear, 'index_array': post_index_array,
             'rso_broadcast': post_rso_broadcast}
    _install(ctx, [(n, table[n]) for n in names])


def install_events(ctx):
    _install(ctx, [('event_dict', post_event_dict), ('comb_set', post_comb_set)])
