"""Event-wise adaptive decisions in convex constraints of dro models (constraints WITHOUT E).

  S scenarios with their own box supports, fixed probabilities
  x   static, pinned by x == b
  t   event-wise adaptive (one value per event of a random partition)
  min sup E(t)   s.t.   atom(x - a) <= t          (a convex constraint, in several spellings)
                         t >= c.z + d  for all z in the scenario's support

The convex constraint has to hold in every scenario, i.e. for every event's copy of t:
t_e = max(rho, max_{s in e} h_s) with rho = atom(b - a), h_s = max over the support of c.z + d.
Both the per-scenario values of t and the optimum have closed forms."""
import numpy as np

from rv import common as C
from rv import dromodel as DR

ATOMS = ['norm2', 'norm1', 'norminf', 'abs0', 'sumsqr', 'square0', 'exp0']
SPELL = ['left', 'right', 'neg', 'shifted']


def gen(rng, tier):
    Sn = int(rng.integers(2, 6))
    n = int(rng.integers(1, 4))
    part = DR.random_partition(rng, Sn)
    if len(part) == 1 and rng.random() < 0.8:
        part = [[0], list(range(1, Sn))]
    labels = None
    lk = rng.random()
    if lk < 0.3:
        labels = ['s%c' % (97 + i) for i in range(Sn)]
    elif lk < 0.5:
        labels = [int((i + 1) % Sn) for i in range(Sn)]
    p = rng.uniform(0.5, 1.5, Sn)
    p = np.round(p / p.sum(), 3)
    p[-1] = np.round(1 - p[:-1].sum(), 3)
    centers = np.round(rng.uniform(-1, 1, (Sn, 2)), 2)
    order = list(range(len(part)))
    rng.shuffle(order)
    spec = {'kind': 'evconvex', 'S': Sn, 'n': n, 'partition': part, 'order': order,
            'labels': labels, 'p': p.tolist(),
            'lo': (centers - np.round(rng.uniform(0.1, 0.8, (Sn, 2)), 2)).tolist(),
            'hi': (centers + np.round(rng.uniform(0.1, 0.8, (Sn, 2)), 2)).tolist(),
            'b': np.round(rng.uniform(-1.5, 1.5, n), 2).tolist(),
            'a': np.round(rng.uniform(-1.5, 1.5, n), 2).tolist(),
            'c': np.round(rng.uniform(-1.5, 1.5, 2), 2).tolist(),
            'd': float(np.round(rng.uniform(-0.5, 0.5), 2)),
            'atom': ATOMS[int(rng.integers(len(ATOMS)))], 'spell': SPELL[int(rng.integers(4))],
            'x_adapt': bool(rng.random() < 0.3),     # x event-wise on a coarser partition
            'second': bool(rng.random() < 0.4)}      # a second event-wise variable on the left
    # a deterministic LINEAR row that combines two variables:  t - v >= g  with v pinned to v0
    spec['linrow'] = [float(np.round(rng.uniform(-1, 1), 2)), float(np.round(rng.uniform(-0.5, 1), 2))] \
        if rng.random() < 0.5 else None
    # adapt() calls made after all constraints were created and added (1), or even after a first
    # solve of the model without them (2)
    spec['late_adapt'] = int(rng.choice([0, 0, 1, 2]))
    return spec


def rho_of(spec):
    u = np.array(spec['b'], float) - np.array(spec['a'], float)
    a = spec['atom']
    return {'norm2': np.linalg.norm(u), 'norm1': np.abs(u).sum(), 'norminf': np.abs(u).max(),
            'abs0': abs(u[0]), 'sumsqr': float(u @ u), 'square0': u[0] ** 2,
            'exp0': np.exp(u[0])}[a]


def run(spec, ctx, exact=False):
    import rsome as rso
    from rsome import dro
    Sn, n = spec['S'], spec['n']
    labels = spec['labels']
    feats = {'class': 'evconvex', 'S': Sn, 'events': len(spec['partition']), 'atom': spec['atom'],
             'linrow': bool(spec.get('linrow')), 'late_adapt': int(spec.get('late_adapt', 0)),
             'spell': spec['spell'], 'labels': 'int' if labels is None else type(labels[0]).__name__,
             'x_adapt': spec['x_adapt'], 'second': spec['second']}
    sig = '|'.join('%s=%s' % (k, feats[k]) for k in sorted(feats))
    try:
        m = dro.Model(Sn if labels is None else labels)
        x = m.dvar(n)
        t = m.dvar()
        w = m.dvar() if spec['second'] else None    # (all variables first: see known finding C09)
        v = m.dvar() if spec.get('linrow') else None
        z = m.rvar(2)
        fset = m.ambiguity()
        for s in range(Sn):
            lab = s if labels is None else labels[s]
            fset[lab].suppset(z >= np.array(spec['lo'][s]), z <= np.array(spec['hi'][s]))
        fset.probset(m.p == np.array(spec['p']))
        part = spec['partition']

        def do_adapt():
            for bi in spec['order'][:-1]:
                blk = part[bi]
                lab = blk if labels is None else [labels[i] for i in blk]
                t.adapt(lab if len(lab) > 1 else lab[0])
            if spec['x_adapt'] and len(part) >= 2:
                blk = part[spec['order'][0]]      # x: this block versus the rest (coarser than t)
                lab = blk if labels is None else [labels[i] for i in blk]
                x.adapt(lab if len(lab) > 1 else lab[0])

        late = int(spec.get('late_adapt', 0))
        if not late:
            do_adapt()
        u = x - np.array(spec['a'])
        a = spec['atom']
        cv = {'norm2': lambda: rso.norm(u), 'norm1': lambda: rso.norm(u, 1),
              'norminf': lambda: rso.norm(u, 'inf'), 'abs0': lambda: abs(u[0]),
              'sumsqr': lambda: rso.sumsqr(u), 'square0': lambda: rso.square(u[0]),
              'exp0': lambda: rso.exp(u[0])}[a]()
        rhs = t
        extra = 0.0
        if spec['second']:
            w.adapt(0 if labels is None else labels[0])
            m.st(w == 0.25)
            rhs = t + w
            extra = 0.25
        con = {'left': lambda: cv <= rhs, 'right': lambda: rhs >= cv, 'neg': lambda: cv - rhs <= 0,
               'shifted': lambda: cv + 1.0 <= rhs + 1.0}[spec['spell']]()
        m.minsup(rso.E(t), fset)
        m.st(con)
        m.st(t >= np.array(spec['c']) @ z + spec['d'])
        m.st(x == np.array(spec['b']))
        if spec.get('linrow'):
            m.st(t - v >= spec['linrow'][1])
            m.st(v == spec['linrow'][0])
        if late == 2:
            m.st(t <= 1e3)
            try:
                C.solve(m, 'eco' if C.cone_class(m.do_math())[0] in 'QX' else 'def')
            except Exception as e:
                if not C.solver_library_error(e):
                    raise
            ctx.count('evconvex_solved_before_adapt')
        if late:
            do_adapt()
        f = m.do_math()
    except Exception as e:
        ctx.count('evconvex_rsome_raises:%s' % type(e).__name__)
        return {'status': 'skip', 'reason': 'rsome raised at build: %s: %s' % (type(e).__name__,
                                                                              str(e)[:60])}
    sname = 'eco' if C.cone_class(f)[0] in 'QX' else 'def'
    try:
        C.solve(m, sname)
    except Exception as e:
        ctx.count('evconvex_rsome_raises_solve:%s' % type(e).__name__)
        return {'status': 'skip', 'reason': 'rsome raised at solve: %s' % type(e).__name__}
    if not C.optimal(m) or (sname == 'eco' and 'Optimal' not in str(m.solution.status)):
        st = str(getattr(m.solution, 'status', None))
        if C.definitive_failure(sname, st):
            return {'status': 'violation', 'mechanism': 'evconvex:not_solved',
                    'detail': {'what': 'feasible bounded model reported infeasible/unbounded',
                               'status': st}, 'features': feats, 'sig': sig, 'nontrivial': True}
        return {'status': 'skip', 'reason': 'not optimal: ' + st}
    ctx.count('evconvex_models_solved')
    rho = float(rho_of(spec)) - extra
    cvec = np.array(spec['c'])
    h = [float(np.sum(np.maximum(cvec * np.array(spec['lo'][s]), cvec * np.array(spec['hi'][s])))
               + spec['d']) for s in range(Sn)]
    te = {}
    lin = [spec['linrow'][0] + spec['linrow'][1]] if spec.get('linrow') else []
    for blk in part:
        v_ = max([rho] + lin + [h[s] for s in blk])
        for s in blk:
            te[s] = v_
    want = float(sum(spec['p'][s] * te[s] for s in range(Sn)))
    tol = 2e-4 * (1 + abs(want))
    tg = t.get()
    detail = []
    import pandas as pd
    for s in range(Sn):
        lab = s if labels is None else labels[s]
        ts = float(tg.loc[lab]) if isinstance(tg, pd.Series) else float(tg)
        if ts < rho - tol:
            detail.append({'what': 'convex constraint without E violated in a scenario',
                           'scenario': str(lab), 't': ts, 'atom_value_minus_offsets': rho})
            break
    val = float(m.get())
    if val < want - tol:
        detail.append({'what': 'reported optimum is below the least attainable value',
                       'reported': val, 'attainable': want})
    elif exact and val > want + tol:
        detail.append({'what': 'reported optimum is above the true optimum', 'reported': val,
                       'true': want})
    if detail:
        return {'status': 'violation', 'mechanism': 'evconvex:' + detail[0]['what'][:45],
                'detail': detail[:3], 'features': feats, 'sig': sig, 'nontrivial': True}
    return {'status': 'held', 'features': feats, 'sig': sig, 'nontrivial': True,
            'observed': {'value': val, 'closed_form': want}}
