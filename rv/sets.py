"""Uncertainty-set primitives on a random vector z in R^n.

A set is a list of primitive dicts (their intersection).  For each primitive:
  * build_rsome(prim, z)   -> list of RSOME constraints on the 1-D expression z
  * viol(prim, z)          -> max constraint violation of the point z (<=0 inside)
The module also provides the exact/heuristic linear maximiser over a set
(`maximize`) that never touches RSOME: linprog for polyhedral sets, a direct
ECOS call for sets with second-order-cone pieces, SLSQP otherwise.  Every point
returned is re-verified with `viol`.
"""
import numpy as np
from scipy.optimize import linprog, minimize

ARR = [None]      # optional callback turning an array into a guarded user array


def _ua(a):
    a = np.array(a, float)
    return ARR[0](a) if ARR[0] is not None else a


POLY = ('box', 'lin', 'eq', 'norm1', 'norminf', 'absbudget')
SOC = ('norm2', 'sumsqr', 'quad')
SMOOTH = ('pnorm', 'kl', 'entropy', 'expc')


def _idx(prim, n):
    return np.array(prim.get('idx', list(range(n))), dtype=int)


def pval(p):
    if isinstance(p, (list, tuple)):
        return p[0] / p[1]
    return float(p)


# ------------------------------------------------------------------ membership

def viol(prim, z):
    """Largest violation (>0 means outside) of primitive at z."""
    z = np.asarray(z, dtype=float)
    n = z.size
    t = prim['t']
    I = _idx(prim, n)
    if t == 'box':
        lo = np.array(prim['lo'], float)
        hi = np.array(prim['hi'], float)
        return float(max(np.max(lo - z[I], initial=-np.inf),
                         np.max(z[I] - hi, initial=-np.inf)))
    if t == 'lin':
        A = np.array(prim['A'], float)
        return float(np.max(A @ z - np.array(prim['b'], float)))
    if t == 'eq':
        F = np.array(prim['F'], float)
        return float(np.max(np.abs(F @ z - np.array(prim['g'], float))))
    if t in ('norm1', 'norminf', 'norm2', 'pnorm'):
        v = np.array(prim['D'], float) * (z[I] - np.array(prim['c'], float))
        p = {'norm1': 1, 'norminf': np.inf, 'norm2': 2}.get(t) or pval(prim['p'])
        return float(np.linalg.norm(v, p) - prim['r'])
    if t == 'sumsqr':
        v = np.array(prim['D'], float) * (z[I] - np.array(prim['c'], float))
        return float(v @ v - prim['r'])
    if t == 'quad':
        v = z[I] - np.array(prim['c'], float)
        return float(v @ np.array(prim['Q'], float) @ v - prim['r'])
    if t == 'absbudget':
        U = np.array(prim['uidx'], dtype=int)
        c = np.array(prim['c'], float)
        m = max(np.max(np.abs(z[I] - c) - z[U]), np.sum(z[U]) - prim['gamma'])
        if prim.get('w') is not None:
            m = max(m, np.max(z[U] - np.array(prim['w'], float)))
        return float(m)
    if t == 'wass':
        # lifted Wasserstein-type support: ||z[:k] - c||_p <= z[k] <= ubar
        k = len(prim['c'])
        o = {1: 1, 2: 2, 'inf': np.inf}[prim['p']]
        u = z[k]
        return float(max(np.linalg.norm(z[:k] - np.array(prim['c'], float), o) - u,
                         u - prim['ubar']))
    if t == 'kl':
        q = np.array(prim['q'], float)
        p = z[I]
        m = max(np.max(-p), abs(p.sum() - 1))
        pp = np.maximum(p, 1e-300)
        m = max(m, float(np.sum(pp * np.log(pp / q)) - prim['r']))
        return float(m)
    if t == 'entropy':
        p = z[I]
        m = max(np.max(-p), abs(p.sum() - 1))
        pp = np.maximum(p, 1e-300)
        m = max(m, float(prim['r'] + np.sum(pp * np.log(pp))))   # -sum p log p >= r
        return float(m)
    if t == 'expc':
        # exp(z[i]) <= z[j] for pairs, z[j] <= ub
        m = -np.inf
        for (i, j, ub, lb) in prim['pairs']:
            m = max(m, np.exp(z[i]) - z[j], z[j] - ub, lb - z[i])
        return float(m)
    raise KeyError(t)


def set_viol(prims, z):
    return max(viol(p, z) for p in prims)


def contains(prims, z, tol=1e-7):
    return set_viol(prims, z) <= tol


# ------------------------------------------------------------------ RSOME spelling

def build_rsome(prims, z, rng=None):
    """z: 1-D RSOME expression (random variables, length n). Returns list of
    constraints.  rng (optional) randomises equivalent spellings."""
    import rsome as rso
    out = []
    n = z.shape[0]

    def coin():
        return rng is not None and rng.random() < 0.5

    for prim in prims:
        t = prim['t']
        I = list(_idx(prim, n))
        full = (I == list(range(n)))
        zi = z if full else z[I]
        if t == 'box' and prim.get('exp_spell'):
            # the same box written with exponential constraints only:
            # exp(z_i) <= e^hi_i  and  exp(-z_i) <= e^-lo_i   (no linear piece in the set)
            lo_ = np.asarray(prim['lo'], float)
            hi_ = np.asarray(prim['hi'], float)
            out.append(rso.exp(zi) <= np.exp(hi_))
            out.append(rso.exp(-zi) <= np.exp(-lo_))
            continue
        if t == 'box':
            lo = _ua(prim['lo'])
            hi = _ua(prim['hi'])
            fixed = np.where(np.asarray(lo) == np.asarray(hi))[0]
            if len(fixed) and len(fixed) < len(I) and rng is not None and rng.random() < 0.6:
                # fixed components written as equalities (or a zero-radius ball), the rest as bounds
                free = [k for k in range(len(I)) if k not in set(fixed.tolist())]
                for k in fixed:
                    zk = zi[int(k)]
                    if rng.random() < 0.5:
                        out.append(zk == float(np.asarray(lo)[k]))
                    else:
                        out.append(abs(zk - float(np.asarray(lo)[k])) <= 0)
                zf = zi[free]
                out.append(zf >= np.asarray(lo)[free])
                out.append(zf <= np.asarray(hi)[free])
                continue
            if coin():
                out.append(zi >= lo)
                out.append(zi <= hi)
            else:
                out.append(-zi <= -lo)
                out.append(hi >= zi)
        elif t == 'lin':
            A = _ua(prim['A'])
            b = _ua(prim['b'])
            if coin():
                out.append(A @ z <= b)
            else:
                for k in range(A.shape[0]):
                    out.append(A[k] @ z <= b[k])
        elif t == 'eq':
            F = _ua(prim['F'])
            g = _ua(prim['g'])
            out.append(F @ z == g)
        elif t in ('norm1', 'norminf', 'norm2', 'pnorm', 'sumsqr'):
            D = _ua(prim['D'])
            c = _ua(prim['c'])
            arg = D * (zi - c) if coin() else (D * zi - D * c)
            if t == 'norm1':
                out.append(rso.norm(arg, 1) <= prim['r'])
            elif t == 'norminf':
                if coin():
                    out.append(rso.norm(arg, 'inf') <= prim['r'])
                else:
                    out.append(abs(arg) <= prim['r'])
            elif t == 'norm2':
                out.append(rso.norm(arg, 2) <= prim['r'] if coin() else rso.norm(arg) <= prim['r'])
            elif t == 'sumsqr':
                out.append(rso.sumsqr(arg) <= prim['r'])
            else:
                p = prim['p']
                meth = prim.get('method')
                pp = tuple(p) if isinstance(p, list) else p
                if meth:
                    out.append(rso.pnorm(arg, pp, meth) <= prim['r'])
                elif isinstance(pp, int) and coin():
                    out.append(rso.norm(arg, pp) <= prim['r'])
                else:
                    out.append(rso.pnorm(arg, pp) <= prim['r'])
        elif t == 'quad':
            c = _ua(prim['c'])
            out.append(rso.quad(zi - c, _ua(prim['Q'])) <= prim['r'])
        elif t == 'absbudget':
            U = list(prim['uidx'])
            c = _ua(prim['c'])
            u = z[U]
            out.append(abs(zi - c) <= u)
            out.append(u.sum() <= prim['gamma'])
            if prim.get('w') is not None:
                out.append(u <= _ua(prim['w']))
        elif t == 'wass':
            k = len(prim['c'])
            c = _ua(prim['c'])
            deg = {1: 1, 2: 2, 'inf': 'inf'}[prim['p']]
            out.append(rso.norm(z[:k] - c, deg) <= z[k])
            out.append(z[k] <= prim['ubar'])
        elif t == 'kl':
            q = _ua(prim['q'])
            out.append(zi >= 0)
            out.append(zi.sum() == 1)
            out.append(rso.kldiv(zi, q, prim['r']))
        elif t == 'entropy':
            out.append(zi >= 0)
            out.append(zi.sum() == 1)
            out.append(rso.entropy(zi) >= prim['r'])
        elif t == 'expc':
            for (i, j, ub, lb) in prim['pairs']:
                out.append(rso.exp(z[i]) <= z[j])
                out.append(z[j] <= ub)
                out.append(z[i] >= lb)
        else:
            raise KeyError(t)
    return out


# ------------------------------------------------------------------ maximiser

def classify(prims):
    ts = {('wass2' if (p['t'] == 'wass' and p['p'] == 2) else 'wasspoly' if p['t'] == 'wass'
           else p['t']) for p in prims}
    if 'wass2' in ts:
        return 'smooth'
    ts = {('box' if t_ == 'wasspoly' else t_) for t_ in ts}
    if ts <= set(POLY):
        return 'poly'
    if ts <= set(POLY) | set(SOC):
        return 'soc'
    return 'smooth'


def _poly_rows(prims, n):
    """H-representation with extra variables: returns (n_total, A_ub, b_ub, A_eq, b_eq)."""
    Aub, bub, Aeq, beq = [], [], [], []
    extra = 0
    rows_pending = []
    for prim in prims:
        t = prim['t']
        I = _idx(prim, n)
        if t == 'box':
            for k, i in enumerate(I):
                rows_pending.append(('ub', {i: 1.0}, prim['hi'][k]))
                rows_pending.append(('ub', {i: -1.0}, -prim['lo'][k]))
        elif t == 'lin':
            A = np.array(prim['A'], float)
            for k in range(A.shape[0]):
                rows_pending.append(('ub', {j: A[k, j] for j in range(n) if A[k, j] != 0},
                                     prim['b'][k]))
        elif t == 'eq':
            F = np.array(prim['F'], float)
            for k in range(F.shape[0]):
                rows_pending.append(('eq', {j: F[k, j] for j in range(n) if F[k, j] != 0},
                                     prim['g'][k]))
        elif t == 'norminf':
            D = np.array(prim['D'], float)
            c = np.array(prim['c'], float)
            for k, i in enumerate(I):
                rows_pending.append(('ub', {i: D[k]}, prim['r'] + D[k] * c[k]))
                rows_pending.append(('ub', {i: -D[k]}, prim['r'] - D[k] * c[k]))
        elif t == 'norm1':
            D = np.array(prim['D'], float)
            c = np.array(prim['c'], float)
            tot = {}
            for k, i in enumerate(I):
                e = n + extra
                extra += 1
                rows_pending.append(('ub', {i: D[k], e: -1.0}, D[k] * c[k]))
                rows_pending.append(('ub', {i: -D[k], e: -1.0}, -D[k] * c[k]))
                tot[e] = 1.0
            rows_pending.append(('ub', tot, prim['r']))
        elif t == 'wass':
            kk = len(prim['c'])
            c = np.array(prim['c'], float)
            rows_pending.append(('ub', {kk: 1.0}, prim['ubar']))
            if prim['p'] == 'inf':
                for i in range(kk):
                    rows_pending.append(('ub', {i: 1.0, kk: -1.0}, c[i]))
                    rows_pending.append(('ub', {i: -1.0, kk: -1.0}, -c[i]))
            else:
                import itertools as _it
                for sg in _it.product([-1.0, 1.0], repeat=kk):
                    coef = {i: sg[i] for i in range(kk)}
                    coef[kk] = -1.0
                    rows_pending.append(('ub', coef, float(np.dot(sg, c))))
        elif t == 'absbudget':
            c = np.array(prim['c'], float)
            U = prim['uidx']
            for k, i in enumerate(I):
                rows_pending.append(('ub', {i: 1.0, U[k]: -1.0}, c[k]))
                rows_pending.append(('ub', {i: -1.0, U[k]: -1.0}, -c[k]))
            rows_pending.append(('ub', {u: 1.0 for u in U}, prim['gamma']))
            if prim.get('w') is not None:
                for k, u in enumerate(U):
                    rows_pending.append(('ub', {u: 1.0}, prim['w'][k]))
    N = n + extra
    for kind, coef, rhs in rows_pending:
        row = np.zeros(N)
        for j, v in coef.items():
            row[j] += v
        if kind == 'ub':
            Aub.append(row)
            bub.append(rhs)
        else:
            Aeq.append(row)
            beq.append(rhs)
    return (N, np.array(Aub).reshape(-1, N), np.array(bub, float),
            np.array(Aeq).reshape(-1, N), np.array(beq, float))


def _max_poly(prims, a, n):
    N, Aub, bub, Aeq, beq = _poly_rows(prims, n)
    c = np.zeros(N)
    c[:n] = -np.asarray(a, float)
    res = linprog(c, A_ub=Aub if len(bub) else None, b_ub=bub if len(bub) else None,
                  A_eq=Aeq if len(beq) else None, b_eq=beq if len(beq) else None,
                  bounds=[(None, None)] * N, method='highs')
    if res.status != 0:
        return None, res.status
    return res.x[:n], 0


def _max_soc(prims, a, n):
    import ecos
    import scipy.sparse as sp
    pol = [p for p in prims if p['t'] in POLY]
    N, Aub, bub, Aeq, beq = _poly_rows(pol, n) if pol else (n, np.zeros((0, n)), np.zeros(0),
                                                         np.zeros((0, n)), np.zeros(0))
    Gq, hq, dims_q = [], [], []
    for prim in prims:
        t = prim['t']
        if t not in SOC:
            continue
        I = _idx(prim, n)
        if t == 'norm2':
            D = np.array(prim['D'], float)
            c = np.array(prim['c'], float)
            L = np.diag(D)
            r = prim['r']
        elif t == 'sumsqr':
            D = np.array(prim['D'], float)
            c = np.array(prim['c'], float)
            L = np.diag(D)
            r = np.sqrt(prim['r'])
        else:
            Q = np.array(prim['Q'], float)
            w, V = np.linalg.eigh(Q)
            w = np.maximum(w, 0)
            L = (V * np.sqrt(w)).T          # ||L v||^2 = v'Qv
            c = np.array(prim['c'], float)
            r = np.sqrt(prim['r'])
        k = L.shape[0]
        G = np.zeros((k + 1, N))
        G[1:, I] = -L
        h = np.concatenate(([r], -L @ c))
        Gq.append(G)
        hq.append(h)
        dims_q.append(k + 1)
    G = np.vstack([Aub] + Gq)
    h = np.concatenate([bub] + hq)
    c = np.zeros(N)
    c[:n] = -np.asarray(a, float)
    kw = {}
    if len(beq):
        kw = {'A': sp.csc_matrix(Aeq), 'b': beq}
    sol = ecos.solve(c, sp.csc_matrix(G), h, {'l': len(bub), 'q': dims_q, 'e': 0},
                     verbose=False, abstol=1e-10, reltol=1e-10, feastol=1e-10, **kw)
    if sol['info']['exitFlag'] not in (0, 10):
        return None, sol['info']['exitFlag']
    return sol['x'][:n], 0


def _smooth_cons(prims, n):
    cons = []
    for prim in prims:
        t = prim['t']
        I = _idx(prim, n)
        if t in POLY and t not in ('norm1', 'absbudget'):
            N, Aub, bub, Aeq, beq = _poly_rows([prim], n)
            if len(bub):
                cons.append({'type': 'ineq', 'fun': lambda z, A=Aub, b=bub: b - A @ z,
                             'jac': lambda z, A=Aub: -A})
            if len(beq):
                cons.append({'type': 'eq', 'fun': lambda z, A=Aeq, b=beq: A @ z - b,
                             'jac': lambda z, A=Aeq: A})
        elif t in ('norm1', 'absbudget'):
            cons.append({'type': 'ineq', 'fun': lambda z, p=prim: -viol(p, z)})
        elif t in ('norm2', 'sumsqr', 'pnorm'):
            D = np.array(prim['D'], float)
            c = np.array(prim['c'], float)
            p = 2.0 if t != 'pnorm' else pval(prim['p'])
            r = prim['r'] if t != 'sumsqr' else np.sqrt(prim['r'])

            def f(z, D=D, c=c, p=p, r=r, I=I):
                v = np.abs(D * (z[I] - c))
                return r ** p - np.sum(v ** p)
            cons.append({'type': 'ineq', 'fun': f})
        elif t == 'quad':
            cons.append({'type': 'ineq', 'fun': lambda z, p=prim: -viol(p, z)})
        elif t == 'wass':
            cons.append({'type': 'ineq', 'fun': lambda z, p=prim: -viol(p, z)})
        elif t in ('kl', 'entropy'):
            cons.append({'type': 'ineq', 'fun': lambda z, I=I: z[I]})
            cons.append({'type': 'eq', 'fun': lambda z, I=I: np.sum(z[I]) - 1})
            if t == 'kl':
                q = np.array(prim['q'], float)
                cons.append({'type': 'ineq', 'fun': lambda z, I=I, q=q, r=prim['r']:
                             r - np.sum(np.maximum(z[I], 1e-12) *
                                        np.log(np.maximum(z[I], 1e-12) / q))})
            else:
                cons.append({'type': 'ineq', 'fun': lambda z, I=I, r=prim['r']:
                             -r - np.sum(np.maximum(z[I], 1e-12) *
                                         np.log(np.maximum(z[I], 1e-12)))})
        elif t == 'expc':
            for (i, j, ub, lb) in prim['pairs']:
                cons.append({'type': 'ineq', 'fun': lambda z, i=i, j=j: z[j] - np.exp(z[i])})
                cons.append({'type': 'ineq', 'fun': lambda z, j=j, ub=ub: ub - z[j]})
                cons.append({'type': 'ineq', 'fun': lambda z, i=i, lb=lb: z[i] - lb})
    return cons


def _max_smooth(prims, a, n, z0):
    cons = _smooth_cons(prims, n)
    a = np.asarray(a, float)
    sc = max(1.0, np.linalg.norm(a))
    best = None
    for start in (z0,):
        res = minimize(lambda z: -(a @ z) / sc, start, jac=lambda z: -a / sc,
                       constraints=cons, method='SLSQP',
                       options={'ftol': 1e-13, 'maxiter': 400})
        z = res.x
        if best is None or a @ z > a @ best:
            best = z
    return best, 0


def _closed_form(prims, a, n):
    """Single norm-ball primitive over all coordinates."""
    if len(prims) != 1:
        return None
    prim = prims[0]
    t = prim['t']
    if t not in ('norm1', 'norm2', 'norminf', 'pnorm', 'sumsqr'):
        return None
    I = _idx(prim, n)
    a = np.asarray(a, float)
    if len(I) != n or np.any(I != np.arange(n)):
        return None
    D = np.array(prim['D'], float)
    c = np.array(prim['c'], float)
    r = prim['r'] if t != 'sumsqr' else np.sqrt(prim['r'])
    b = a / D
    if not np.any(b):
        return c.copy()
    if t == 'norm1':
        k = int(np.argmax(np.abs(b)))
        w = np.zeros(n)
        w[k] = np.sign(b[k])
    elif t == 'norminf':
        w = np.sign(b)
    else:
        p = 2.0 if t != 'pnorm' else pval(prim['p'])
        q = p / (p - 1)
        w = np.sign(b) * np.abs(b) ** (q - 1)
        w = w / np.linalg.norm(w, p)
    return c + r * w / D


def interior_point(prims, n):
    for p in prims:
        if 'center' in p:
            return np.array(p['center'], float)
    return None


def maximize(prims, a, n, z0=None):
    """argmax a.z over the set. Returns (z, exact) or (None, False).  The point
    is verified to be in the set (tolerance 1e-6) before it is returned."""
    a = np.asarray(a, float)
    z = _closed_form(prims, a, n)
    exact = True
    if z is None:
        cls = classify(prims)
        if cls == 'poly':
            z, st = _max_poly(prims, a, n)
        elif cls == 'soc':
            try:
                z, st = _max_soc(prims, a, n)
            except Exception:
                z = None
        else:
            exact = False
            if z0 is None:
                z0 = np.zeros(n)
            z, st = _max_smooth(prims, a, n, np.asarray(z0, float))
    if z is None:
        return None, False
    v = set_viol(prims, z)
    if v > 1e-6:
        if exact and v < 1e-4 and z0 is not None:
            # pull slightly towards the interior point
            z0 = np.asarray(z0, float)
            for lam in (1e-6, 1e-5, 1e-4, 1e-3):
                zz = z + lam * (z0 - z)
                if set_viol(prims, zz) <= 1e-7:
                    return zz, False
        return None, False
    return z, exact


# ------------------------------------------------------------------ random sets

def random_set(rng, nz, kinds, allow_aux=True, center=None, scale=1.0, allow_fixed=True):
    """Random non-empty bounded set around `center` (strictly inside).  Returns
    (prims, n_total, z_center_full).  `kinds`: allowed primitive names."""
    c = np.round(rng.uniform(-1, 1, nz), 2) if center is None else np.array(center, float)
    prims = []
    n = nz
    zc = list(c)
    kind = kinds[int(rng.integers(len(kinds)))]

    def D():
        return np.round(rng.uniform(0.5, 2.0, nz), 2).tolist()

    r = float(np.round(rng.uniform(0.5, 2.0) * scale, 2))
    bounded = False
    if kind == 'box':
        lo = np.round(c - rng.uniform(0.2, 1.5, nz) * scale, 2)
        hi = np.round(c + rng.uniform(0.2, 1.5, nz) * scale, 2)
        r0 = rng.random()
        if r0 < 0.3:
            # a bound that is exactly zero (non-positive or non-negative component)
            i = int(rng.integers(nz))
            w0 = float(np.round(rng.uniform(0.3, 1.5) * scale, 2))
            if r0 < 0.18:
                lo[i], hi[i], c[i] = -w0, 0.0, -w0 / 2
            else:
                lo[i], hi[i], c[i] = 0.0, w0, w0 / 2
            zc = list(c)
        elif allow_fixed and rng.random() < 0.35:
            i = int(rng.integers(nz))          # a component fixed at a value (40 %: exactly zero)
            if rng.random() < 0.4:
                c[i] = 0.0
            elif c[i] == 0:
                c[i] = 0.5
            lo[i] = hi[i] = c[i]
            zc = list(c)
        prims.append({'t': 'box', 'lo': lo.tolist(), 'hi': hi.tolist()})
        bounded = True
    elif kind in ('norm1', 'norminf', 'norm2'):
        prims.append({'t': kind, 'D': D(), 'c': c.tolist(), 'r': r})
        bounded = True
    elif kind == 'sumsqr':
        prims.append({'t': 'sumsqr', 'D': D(), 'c': c.tolist(), 'r': float(np.round(r * r, 3))})
        bounded = True
    elif kind == 'pnorm':
        p = [3, 4, 5, [3, 2], [5, 3], [7, 2], 2.5, 3.0][int(rng.integers(8))]
        prim = {'t': 'pnorm', 'p': p, 'D': D(), 'c': c.tolist(), 'r': r}
        prims.append(prim)
        bounded = True
    elif kind == 'quad':
        M = rng.uniform(-1, 1, (nz, nz))
        Q = np.round(M @ M.T + 0.3 * np.eye(nz), 3)
        prims.append({'t': 'quad', 'Q': Q.tolist(), 'c': c.tolist(), 'r': float(np.round(r * r, 3))})
        bounded = True
    elif kind == 'absbudget' and allow_aux:
        U = list(range(n, n + nz))
        n += nz
        w = np.round(rng.uniform(0.3, 1.5, nz) * scale, 2)
        gamma = float(np.round(rng.uniform(0.4, 0.9) * w.sum(), 2))
        prims.append({'t': 'absbudget', 'uidx': U, 'c': c.tolist(), 'gamma': gamma,
                      'w': w.tolist()})
        zc = zc + (0.25 * np.minimum(w, gamma / nz)).tolist()
        bounded = True
    elif kind == 'expc' and allow_aux:
        # exp(z_i) <= u_i <= ub_i, z_i >= lb_i  (u lifted)
        w = np.round(rng.uniform(0.3, 1.2, nz) * scale, 2)
        pairs = []
        for i in range(nz):
            ub = float(np.round(np.exp(c[i] + w[i]), 4))
            pairs.append([i, n + i, ub, float(np.round(c[i] - w[i], 3))])
        prims.append({'t': 'expc', 'pairs': pairs})
        zc = zc + [float((np.exp(c[i]) + pairs[i][2]) / 2) for i in range(nz)]
        n += nz
        bounded = True
    elif kind == 'polytope':
        k = int(rng.integers(nz + 1, nz + 4))
        A = np.round(rng.normal(size=(k, nz)), 2)
        b = np.round(A @ c + rng.uniform(0.3, 1.5, k) * scale, 2)
        prims.append({'t': 'lin', 'A': A.tolist(), 'b': b.tolist()})
        bounded = False
    elif kind == 'kl' and nz >= 2:
        q = rng.uniform(0.5, 1.5, nz)
        q = np.round(q / q.sum(), 3)
        q[-1] = 1 - q[:-1].sum()
        prims.append({'t': 'kl', 'q': q.tolist(), 'r': float(np.round(rng.uniform(0.02, 0.3), 3))})
        zc = q.tolist()
        bounded = True
    elif kind == 'entropy' and nz >= 2:
        u = np.ones(nz) / nz
        h = np.log(nz)
        prims.append({'t': 'entropy', 'r': float(np.round(h * rng.uniform(0.5, 0.9), 3))})
        zc = u.tolist()
        bounded = True
    else:
        lo = np.round(c - rng.uniform(0.2, 1.5, nz) * scale, 2)
        hi = np.round(c + rng.uniform(0.2, 1.5, nz) * scale, 2)
        prims.append({'t': 'box', 'lo': lo.tolist(), 'hi': hi.tolist()})
        bounded = True
    for pr in prims:
        if pr['t'] not in ('lin', 'eq', 'expc') and 'idx' not in pr:
            pr['idx'] = list(range(nz))
    zc = np.array(zc, float)
    # optional extra pieces (intersection) that keep zc strictly inside
    if not bounded or rng.random() < 0.45:
        cz = zc[:nz]
        extra = ['box', 'halfspace', 'norminf', 'norm1', 'norm2'] if bounded else ['box', 'norminf']
        e = extra[int(rng.integers(len(extra)))]
        if kind in ('kl', 'entropy'):
            e = 'halfspace'
        if e == 'box':
            blo = np.round(cz - rng.uniform(0.3, 1.2, nz) * scale, 2)
            bhi = np.round(cz + rng.uniform(0.3, 1.2, nz) * scale, 2)
            if allow_fixed and nz >= 2 and rng.random() < 0.2 and kind not in ('kl', 'entropy'):
                i = int(rng.integers(nz))
                if cz[i] != 0:
                    blo[i] = bhi[i] = cz[i]
            prims.append({'t': 'box', 'idx': list(range(nz)), 'lo': blo.tolist(),
                          'hi': bhi.tolist()})
        elif e == 'halfspace':
            A = np.zeros((1, n))
            A[0, :nz] = np.round(rng.normal(size=nz), 2)
            sl = 0.02 if kind in ('kl', 'entropy') else float(rng.uniform(0.1, 0.8) * scale)
            b = float(np.ceil((A[0] @ zc + sl * max(1e-3, np.abs(A[0]).sum())) * 1000) / 1000)
            prims.append({'t': 'lin', 'A': A.tolist(), 'b': [b]})
        else:
            prims.append({'t': e, 'idx': list(range(nz)), 'D': D(), 'c': cz.tolist(),
                          'r': float(np.round(rng.uniform(0.6, 1.8) * scale, 2))})
    if rng.random() < 0.12 and nz >= 2 and kind not in ('kl', 'entropy'):
        # an equality piece through the centre
        F = np.zeros((1, n))
        F[0, :nz] = np.round(rng.normal(size=nz), 2)
        prims.append({'t': 'eq', 'F': F.tolist(), 'g': [float(F[0] @ zc)]})
    assert set_viol(prims, zc) <= 1e-9, (prims, zc)
    return prims, n, zc.tolist()
