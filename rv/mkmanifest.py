"""Regenerates /verif/MANIFEST.json from the table below (python3 -m rv.mkmanifest)."""
import json
import os

HERE = os.path.dirname(os.path.dirname(os.path.abspath(__file__)))

CHECKS = {
    'C05': dict(
        technique='runtime differential monitor against NumPy + icontract post-conditions on sparse helpers',
        text='Random expression programs are executed on RSOME objects and on ndarrays; every node is '
             'compared (shape, value at 3 assignments) and re-compared after later operations; '
             'icontract post-conditions on sparse_mul/sp_matmul/sp_lmatmul/sp_trans/sv_to_csr/add_linear/'
             'index_array are on. '
             'Held means: no disagreement on the programs explored.',
        note='NumPy is the reference; leaves are evaluated from their own coefficient data.',
        ref='4/C05', engine='rv-differential'),
}

CHECKS.update({
    'C01': dict(
        technique='runtime reference-model monitor: adversarial worst-case search over the declared set at the returned solution',
        text='After each real ro solve the returned x.get()/ldr.get()/ldr.get(z) values are substituted into every '
             'robust requirement of a neutral spec; LP / ECOS / closed-form / SLSQP adversaries on the harness\'s own '
             'set description search for a violating realisation; witnesses are re-verified (membership and violation) in NumPy. '
             '8 % of the cases are matrix-shaped decision rules in eight array spellings, checked vertex by vertex.',
        note='Solvers trusted to return points feasible for the compiled program; adversary affects detection power only.',
        ref='4/C01', engine='rv-reference'),
    'C02': dict(
        technique='runtime reference-model monitor: independent cutting-plane solution of the semi-infinite problem',
        text='RSOME\'s reported optimum is compared with a cutting-plane reference (HiGHS master LP over verified '
             'realisations, separation by LP/ECOS/closed form); disagreements need a witness (violated realisation, or a '
             're-verified robustly feasible better point, or - when the returned solution is feasible as returned but '
             'beats the reference - the finite relaxation itself: verified scenarios plus a re-solved master LP over the '
             'declared decision space); status mismatch on feasible bounded models is a violation. 12 % of the cases are '
             'matrix-shaped models (2-D decision and random variables, weighted bilinear terms in eight array spellings) '
             'checked against a SciPy LP.',
        note='HiGHS/ECOS in the reference are trusted; conservatism judged only with exact separation oracles.',
        ref='4/C02', engine='rv-reference'),
    'C06': dict(
        technique='runtime reference-model monitor: closed-form re-evaluation of every user constraint and the objective at the returned point',
        text='Random deterministic models over all atoms/spellings/variable types in ro and dro front ends are solved; '
             'each user constraint (convex atoms, cones, piecewise-linear maxof/minof constraints with numeric pieces) '
             'and the objective are evaluated by NumPy at x.get(); a violated constraint or a misreported objective is '
             'the witness. Perspective / exp-cone constraints of dro models whose arguments have different event-wise adaptivity are '
             'evaluated per scenario at the returned point. 15 % of the ro models start with a prelude (a few decoupled variables under an '
             'abs / 1-norm constraint, an epigraph variable carrying the objective, one formulation or solve) before the '
             'variables of the spec - integer ones included - are declared. icontract post-condition on rso_broadcast is on.',
        note='Closed forms in rv/atoms.py define the meaning of atoms; solver tolerances 1e-6 / 2e-5.',
        ref='4/C06', engine='rv-reference'),
    'C07': dict(
        technique='runtime reference-model monitor: pinned-argument closed forms, improving-feasible-point adversary, brute-force enumeration',
        text='Pinned-argument models must return each atom\'s closed-form value (parameter sweeps); an adversary searches '
             'for a feasible strictly better point of the user\'s model; small integer models are enumerated; element-wise '
             'atoms on operands of every broadcastable shape must return NumPy\'s values entry by entry; 40 % of the '
             'enumerated integer models (ro front end) are declared after a prelude formulation / solve that has already '
             'used auxiliary columns.',
        note='An adversary that finds nothing is not a proof of optimality; closed forms are the reference.',
        ref='4/C07', engine='rv-reference'),
})

CHECKS.update({
    'C08': dict(
        technique='runtime differential monitor: primal and dual programs solved by every supporting interface, optimal values compared',
        text='For LPs with every bound pattern, SOC/exp-cone models and robust counterparts (feasible, bounded, strictly '
             'feasible by construction) do_math() and do_math(primal=False) are both solved; dual optimum must equal minus '
             'the primal optimum and the dual must be solvable.',
        note='Solvers trusted where they report optimal; ECOS numerical statuses not judged; LMIs unreachable (no SDP solver).',
        ref='4/C08', engine='rv-differential'),
    'C11': dict(
        technique='runtime differential monitor across solver interfaces + NumPy audit of every returned vector + direct-solver attribution',
        text='One compiled program goes to every interface supporting its cones; values compared, each returned vector '
             'audited against the program, failures must carry no numbers; a discrepancy is attributed to the interface '
             'layer by calling the same solver directly (rv/rawsolve.py). Infeasible/unbounded instances by construction.',
        note='Third-party solvers are the trusted base; ECOS_BB excluded (unreliable); CLP/CPLEX/MOSEK/COPT not installed.',
        ref='4/C11', engine='rv-differential'),
    'C14': dict(
        technique='runtime reference-model monitor: dual-certificate identities on the user data',
        text='dual() of every constraint/bound object returned by st() is checked for shape, stationarity, dual objective '
             '= optimum and signs, for HiGHS, Gurobi and ECOS on LPs with every bound pattern (up to 50 rows; a group of rows '
             'added after a first solve and a first round of dual() reads).',
        note='Identities (not particular values) are checked, so degenerate optima cannot cause false alarms.',
        ref='4/C14', engine='rv-reference'),
    'C16': dict(
        technique='runtime differential monitor: independent LP-format reader, gurobipy.read round trip, cell-by-cell show() comparison',
        text='lp_export()/to_lp() text is parsed by rv/lpformat.py and must reproduce the formula arrays exactly; Gurobi reads '
             'the file and must reach the direct optimum; every cell of show() is compared with the formula (also for '
             'exponential-cone programs: EC rows and their sense/constant cells).',
        note='Exp-cone rows are not exportable (outside the statement); Gurobi reader semantics for bounded binaries skipped.',
        ref='4/C16', engine='rv-differential'),
    'C19': dict(
        technique='runtime state monitor: read-only traps and digests on user arrays, RNG-state probes, program fingerprints across call sequences and processes',
        text='User arrays (five representations) are read-only and digest-checked; RNG states probed; primal/dual fingerprints '
             'compared after repeated do_math, dual formation, every solve, soc_solve, a second build, and two fresh '
             'processes with different PYTHONHASHSEED; repeated solves must agree.',
        note='Numeric equality with -0.0 == 0.0 is the meaning of identical.',
        ref='4/C19', engine='rv-state'),
})

CHECKS.update({
    'C03': dict(
        technique='runtime reference-model monitor: adversary LP over discrete distributions of the ambiguity set at the returned decisions',
        text='After each real dro solve an adversary LP (atoms on support vertices/boundary points, probabilities in the '
             'probability set, conditional means in the expectation sets) searches for a distribution that beats the '
             'reported optimum or violates an E-constraint; non-E constraints are attacked per scenario. Witness '
             'distributions are re-verified in NumPy. 10 % of the cases put event-wise adaptive decisions into convex '
             'constraints without E (closed-form per-scenario values).',
        note='Adversary affects detection power only; solvers trusted on the compiled program.',
        ref='4/C03', engine='rv-reference'),
    'C04': dict(
        technique='runtime reference-model monitor: cutting-plane reference optimum over verified distributions',
        text='RSOME optimum vs a cutting-plane reference (master LP over event-wise affine decisions, separation by the '
             'adversary LP); optimistic/conservative disagreements need witnesses; sample-average and single-scenario '
             'special cases included.',
        note='Exactness of the reference needs vertex-enumerable supports and polyhedral probability/expectation sets; '
             'elsewhere only the optimistic direction is judged.',
        ref='4/C04', engine='rv-reference'),
    'C10': dict(
        technique='runtime monitor with an independent curvature calculus; stage-of-rejection recording; pinned-argument probes of accepted uses',
        text='Random chains of scalings/negations/affine additions on every atom family, used on either side of <=,>=,== '
             'or as min/max; non-convex uses must raise by st/min/max; accepted uses are probed for meaning; bilinear '
             'products must be rejected.',
        note='Rejecting a convex use is allowed; a loud failure after st() on a valid use is an observation.',
        ref='4/C10', engine='rv-state'),
    'C17': dict(
        technique='runtime monitor: exhaustive misuse matrix + interleaved-build differential + class-state snapshots',
        text='Every misuse entry x owner/foreign front end must raise before a program compiles and leave the owner model '
             'intact (every argument position of the multi-argument atoms, algebra on bi-affine expressions and rules, '
             'convex-vs-foreign comparisons); a refusal that is not a model check (dimension errors, refusal only at '
             'compile time) is re-tried over 57 size combinations of the two models so that it cannot be an accident of '
             'sizes; model A alone vs with model B built/solved inside its construction must give identical programs '
             'and optima; class-level state must not change.',
        note='The misuse table is a sample of all possible misuse.',
        ref='4/C17', engine='rv-state'),
    'C18': dict(
        technique='runtime differential monitor: exact exponential-cone optimum vs soc_solve at degrees 4..8; structural comparison of to_socp output',
        text='soc_solve value vs ECOS exact value (relative to the size of the exponential terms, exponents verified in '
             '[-4,4]); to_socp must carry rows, senses, rhs, bounds, types, cones over unchanged and not touch the cached '
             'primal; exact solve afterwards must still work.',
        note='ECOS exponential-cone optimum is the exact reference.',
        ref='4/C18', engine='rv-differential'),
})

CHECKS.update({
    'C09': dict(
        technique='runtime differential monitor over API histories (hostile history vs fresh build) + comparison of the captured uncertainty-set programs',
        text='The same declared ro/dro model is built by a hostile history (distractor sets, mid-way do_math/dual/solve with '
             'varying interfaces, late constraints/variables/rules, a random variable declared between two uses of a rule, '
             'reused expression objects, redefined supports and probability sets, a scenario support replaced through a scenario selector after the first solve, one event declared in two exptset calls, '
             'second ambiguity object, forall() attached to constraints already in the model, adapt() calls made after the '
             'constraints or after a first solve, sets without any linear piece) and by a fresh build; optimum and captured support programs must agree; an exception in one '
             'only is a disagreement.',
        note='One open known finding (dro dvar declared after constraints raises); same interface for both builds.',
        ref='4/C09', engine='rv-differential'),
    'C12': dict(
        technique='runtime reference-model monitor on pinned models: every query API compared with NumPy',
        text='Models whose solution is known by construction (equalities / robust equalities / singleton supports per '
             'event); model.get, x.get, x(), slices, affine/convex/bi-affine calls with assign() (random mixes of '
             'decision, additive-random, product and constant terms, every subset of the random variables assigned), '
             'rules declared as vectors or matrices (coefficients with NaN pattern, .T, rows, sums), per-scenario '
             'labelling, reads made before a re-solve, dro variables adapting to two blocks of random variables are compared '
             'with NumPy values.',
        note='Pinning determines the solution uniquely; solver accuracy 1e-6 on tiny programs.',
        ref='4/C12', engine='rv-reference'),
    'C13': dict(
        technique='runtime monitors: identification optima, structural invariant on rule_var/to_affine output, behavioural probes, icontract on comb_set/event_dict, illegal-declaration table',
        text='Optimum of identification problems pins down the event partition and the dependency mask (all partitions of '
             '<= 4/5 scenarios, random declaration orders/labels); solver-column sharing across scenarios iff same event; '
             'z-coefficient pattern equals declared mask; rule value does not move with undeclared components; refinement '
             'of combined expressions for all partition pairs; illegal declarations raise.',
        note='Identification data are generic so the optimum is unique in value.',
        ref='4/C13', engine='rv-state'),
    'C15': dict(
        technique='runtime metamorphic monitor: base model vs rewritten models, all really solved',
        text='min f <-> -max -f, declaration/term/row order, a<=b <-> -b<=-a <-> b>=a incl. reflected ndarray, == <-> two '
             'inequalities, bounds as objects/rows/inf-norm/abs/loops, rescaling, set argument shapes, operand order, ro <-> '
             'single-scenario dro, ro <-> dro front end, nested collections where the API flattens them; optima must '
             'agree. 20 % of the cases are matrix-shaped models (bounds of every broadcastable shape in seven spellings, '
             'weighted bilinear terms in eight array spellings) that are also compared with a SciPy reference LP. '
             'icontract post-condition on flat() is on.',
        note='Same interface for a base model and its rewrites.',
        ref='4/C15', engine='rv-differential'),
})

PENDING = {}


def main():
    props = [json.loads(l) for l in open(os.path.join(HERE, 'properties.jsonl'))]
    checks = []
    na = []
    for p in props:
        pid = p['id']
        if pid in CHECKS:
            c = CHECKS[pid]
            checks.append({
                'property_id': pid,
                'quick_cmd': './check %s --tier quick' % pid,
                'thorough_cmd': './check %s --tier thorough' % pid,
                'evidence_file': 'evidence/%s.json' % pid,
                'replay_cmd_template': './check %s --replay {path}' % pid,
                'engine': c['engine'],
                'level_claimed': {'category': 'exploration', 'text': c['text'],
                                  'design_ref': 'DESIGN.md section ' + c['ref']},
                'level_note': c['note'],
                'technique': c['technique'],
            })
        else:
            na.append({'property_id': pid,
                       'reason': PENDING.get(pid, 'monitor not built yet in this session; runtime '
                                             'monitoring applies (see DESIGN.md section 4) - '
                                             'not claimed until its check exists and is silent on '
                                             'the unchanged tree')})
    man = {
        'version': 1,
        'setup_cmd': 'PIP_NO_INDEX=1 /venv/bin/python -m pip install -q --no-index --find-links '
                     '/opt/veriftools/wheels --target /verif/.deps icontract && '
                     '/venv/bin/python -m compileall -q rv',
        'hooks': {
            'guard': 'RSOME_VERIF',
            'enable': 'no source hooks: ./check sets RSOME_VERIF=1 and the harness attaches wrappers, '
                      'icontract contracts and sys.monitoring coverage at import time from outside '
                      'the repository; with the variable unset nothing is patched',
            'baseline_off_cmd': 'cd /repo && /venv/bin/python -m pytest -ra -q -p no:cacheprovider '
                                '--timeout=900 --continue-on-collection-errors',
            'source_commits': [],
            'add_only': True,
        },
        'engines': [
            {'name': 'rv-reference', 'path': 'rv/', 'kind_free_text':
             'reference-model monitors: NumPy/linprog oracles re-evaluate what RSOME returned'},
            {'name': 'rv-differential', 'path': 'rv/', 'kind_free_text':
             'two executions that must agree (NumPy vs RSOME, solver vs solver, primal vs dual, '
             'history vs fresh build, export vs program)'},
            {'name': 'rv-state', 'path': 'rv/', 'kind_free_text':
             'state-invariant monitors: wrappers, contracts, read-only traps, fingerprints'},
        ],
        'checks': checks,
        'not_applicable': na,
        'notes': 'All checks are runtime monitors over generated workloads (exploration level). '
                 'Exit 0 held / 1 VIOLATION / 3 INCONCLUSIVE. known_findings.json lists recorded '
                 'defects (open) and repaired ones (fixed).',
    }
    for e in man['engines']:
        e['serves_properties'] = [c['property_id'] for c in checks if c['engine'] == e['name']]
    with open(os.path.join(HERE, 'MANIFEST.json'), 'w') as f:
        json.dump(man, f, indent=1)
    print('checks:', len(checks), 'not_applicable:', len(na))


if __name__ == '__main__':
    main()
