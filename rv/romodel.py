"""Neutral specification of robust models (static variables + linear decision
rules), its translation into RSOME API calls (with randomised spellings), the
NumPy interpretation of a returned solution, and an independent cutting-plane
reference solver.  Nothing here looks at RSOME's formulation internals."""
import numpy as np
from scipy.optimize import linprog

from rv import sets as S
from rv.common import user_array, digest as _digest

ALL_KINDS = ['box', 'norm1', 'norminf', 'norm2', 'sumsqr', 'pnorm', 'quad', 'absbudget',
             'polytope', 'kl', 'entropy', 'expc']
POLY_KINDS = ['box', 'norm1', 'norminf', 'absbudget', 'polytope']
SOC_KINDS = POLY_KINDS + ['norm2', 'sumsqr', 'quad']


# ------------------------------------------------------------------ generation

def _vec(rng, n, dens=0.7, scale=2.0):
    v = np.round(rng.uniform(-scale, scale, n), 2)
    v = v * (rng.random(n) < dens)
    return v


def gen(rng, tier='quick', kinds=None, max_nz=None, allow_eq=True, allow_pieces=True,
        allow_own_sets=True, modes=None):
    kinds = kinds or ALL_KINDS
    big = tier == 'thorough'
    nx = int(rng.integers(1, 5 if big else 4))
    nzr = int(rng.integers(1, (max_nz or (5 if big else 4)) + 1))
    dset, nz, zc = S.random_set(rng, nzr, kinds)
    nrules = int(rng.integers(0, 3)) if rng.random() < 0.7 else 0
    rules = []
    for _ in range(nrules):
        k = int(rng.integers(1, 4))
        style = rng.random()
        if style < 0.25:
            mask = np.ones((k, nz), int)
            mask[:, nzr:] = 0
        elif style < 0.35:
            mask = np.zeros((k, nz), int)
        elif style < 0.45:
            mask = np.ones((k, nz), int)          # adapts to auxiliary components too
        else:
            mask = (rng.random((k, nz)) < 0.5).astype(int)
            if rng.random() < 0.7:
                mask[:, nzr:] = 0
        rules.append({'n': k, 'mask': mask.tolist()})

    def expr(with_z=True, with_rules=True, dens=0.7):
        e = {'a': _vec(rng, nx, dens).tolist(),
             'b': [(_vec(rng, r['n'], 0.6) if with_rules and rng.random() < 0.7
                    else np.zeros(r['n'])).tolist() for r in rules],
             'P': np.zeros((nx, nz)).tolist(), 'q': np.zeros(nz).tolist(),
             'k': float(np.round(rng.uniform(-1, 1), 2))}
        if with_z:
            P = np.round(rng.uniform(-1.5, 1.5, (nx, nz)), 2) * (rng.random((nx, nz)) < 0.45)
            q = _vec(rng, nz, 0.5, 1.5)
            if rng.random() < 0.8:
                P[:, nzr:] = 0
                q[nzr:] = 0
            e['P'] = P.tolist()
            e['q'] = q.tolist()
        return e

    modes = modes or ['min', 'max', 'minmax', 'minmax', 'maxmin']
    mode = modes[int(rng.integers(len(modes)))]
    if mode in ('min', 'max'):
        pieces = [expr(with_z=False, with_rules=False, dens=0.9)]
    else:
        npieces = int(rng.integers(2, 4)) if (allow_pieces and rng.random() < 0.3) else 1
        pieces = [expr(dens=0.9) for _ in range(npieces)]
    xM = float(np.round(rng.uniform(1.0, 3.0), 1))
    yM = float(np.round(rng.uniform(2.0, 6.0), 1))
    xstar = np.round(rng.uniform(-0.6, 0.6, nx) * xM, 2)

    rows = []
    nrows = int(rng.integers(1, 6 if big else 5))
    for _ in range(nrows):
        own = None
        if allow_own_sets and rng.random() < 0.3:
            own_prims, own_n, _ = S.random_set(rng, nzr, kinds, allow_aux=False)
            if own_n == nzr:
                # pad to total dimension: auxiliary components are free in an own set,
                # so rows with an own set must not involve them -> handled below
                own = own_prims
        sense = 'le' if rng.random() < 0.55 else 'ge'
        e = expr()
        if own is not None:
            P = np.array(e['P'])
            P[:, nzr:] = 0
            q = np.array(e['q'])
            q[nzr:] = 0
            if not (P.any() or q.any()):
                q[0] = 1.0
            e['P'] = P.tolist()
            e['q'] = q.tolist()
            # rules may depend on aux components which are unbounded in an own set
            for i, r in enumerate(rules):
                if np.array(r['mask'])[:, nzr:].any():
                    e['b'][i] = np.zeros(r['n']).tolist()
        rows.append({'e': e, 'sense': sense, 'rhs': 0.0, 'set': own})
    if allow_eq and rules and rng.random() < 0.35:
        # equality that is satisfiable identically in z: y_i[r] == alpha x_j + beta.z + gamma
        i = int(rng.integers(len(rules)))
        r = int(rng.integers(rules[i]['n']))
        mask = np.array(rules[i]['mask'])[r]
        beta = _vec(rng, nz, 0.8, 1.0) * mask
        j = int(rng.integers(nx))
        alpha = float(np.round(rng.uniform(-1, 1), 2))
        e = {'a': (-alpha * np.eye(nx)[j]).tolist(),
             'b': [(np.eye(rl['n'])[r] if ii == i else np.zeros(rl['n'])).tolist()
                   for ii, rl in enumerate(rules)],
             'P': np.zeros((nx, nz)).tolist(), 'q': (-beta).tolist(), 'k': 0.0}
        rows.append({'e': e, 'sense': 'eq', 'rhs': float(np.round(rng.uniform(-0.3, 0.3), 2)),
                     'set': None, 'eqdef': [i, r, j, alpha, beta.tolist()]})
    late = int(rng.integers(1, 3)) if (rules and rng.random() < 0.25) else 0
    spec = {'late_rvar': late, 'nx': nx, 'xsplit': _split(rng, nx), 'xM': xM, 'yM': yM,
            'nz': nz, 'nzr': nzr, 'zsplit': _split(rng, nz), 'rules': rules,
            'dset': dset, 'dcenter': zc, 'mode': mode, 'pieces': pieces, 'rows': rows,
            'xstar': xstar.tolist(), 'spell': int(rng.integers(1 << 30))}
    _calibrate(spec, rng)
    return spec


def _split(rng, n):
    if n >= 2 and rng.random() < 0.4:
        k = int(rng.integers(1, n))
        return [k, n - k]
    return [n]


def _pad(z, n):
    z = np.asarray(z, float)
    if z.size < n:
        z = np.concatenate([z, np.zeros(n - z.size)])
    return z


def row_set(spec, row):
    """(prims, n) of the set a row is quantified over."""
    if row.get('set') is not None:
        return row['set'], spec['nzr']
    return spec['dset'], spec['nz']


def _calibrate(spec, rng):
    """Choose right-hand sides so that (xstar, rules consistent with equalities)
    is robustly feasible with slack: the model is feasible by construction."""
    nx, nz = spec['nx'], spec['nz']
    x = np.array(spec['xstar'])
    y0 = [np.zeros(r['n']) for r in spec['rules']]
    Y = [np.zeros((r['n'], nz)) for r in spec['rules']]
    for row in spec['rows']:
        if row['sense'] == 'eq':
            i, r, j, alpha, beta = row['eqdef']
            y0[i][r] = alpha * x[j] + row['rhs']
            Y[i][r] = np.array(beta)
    spec['ystar'] = [[a.tolist() for a in y0], [a.tolist() for a in Y]]
    # rule bounds must hold at the starting point: enlarge yM if needed
    zc = np.array(spec['dcenter'])
    need = 0.0
    for i, r in enumerate(spec['rules']):
        for rr in range(r['n']):
            for sgn in (1, -1):
                zz, _ = S.maximize(spec['dset'], sgn * Y[i][rr], nz, z0=zc)
                if zz is not None:
                    need = max(need, abs(y0[i][rr] + Y[i][rr] @ zz))
    spec['yM'] = float(max(spec['yM'], np.ceil(need + 1.0)))
    for row in spec['rows']:
        if row['sense'] == 'eq':
            continue
        prims, n = row_set(spec, row)
        al, be = coeffs(spec, row['e'], x, y0, Y)
        sgn = 1 if row['sense'] == 'le' else -1
        zz, _ = S.maximize(prims, sgn * be[:n], n, z0=np.array(spec['dcenter'])[:n]
                           if prims is spec['dset'] else None)
        if zz is None:
            wc = sgn * al + np.abs(be).sum() * 5
        else:
            wc = sgn * (al + be[:n] @ zz)
        slack = float(np.round(rng.uniform(0.05, 1.0), 2))
        row['rhs'] = float(np.round(sgn * (wc + slack), 3))


# ------------------------------------------------------------------ semantics in NumPy

def coeffs(spec, e, x, y0, Y):
    """value(z) = alpha + beta.z for fixed decisions."""
    x = np.asarray(x, float)
    alpha = float(np.dot(e['a'], x) + e['k'])
    beta = np.array(e['P'], float).T @ x + np.array(e['q'], float)
    for i, b in enumerate(e['b']):
        b = np.array(b, float)
        alpha += float(b @ y0[i])
        beta = beta + np.asarray(Y[i], float).T @ b
    return alpha, beta


# ------------------------------------------------------------------ RSOME build

class Built:
    pass


def _hook(variant, point, B=None):
    cb = (variant or {}).get('hook')
    if cb is not None:
        cb(point, B)


def build(spec, rso_mod=None, variant=None):
    try:
        return _build(spec, rso_mod, variant)
    finally:
        S.ARR[0] = None


def _build(spec, rso_mod=None, variant=None):
    """Translate the spec into an ro.Model.  `variant` (dict) selects rewrites
    used by C15/C09; default spelling is chosen from spec['spell']."""
    import rsome as rso
    from rsome import ro
    variant = variant or {}
    rng = np.random.default_rng(spec['spell'] + int(variant.get('respell', 0)))
    # container in which a constraint's own set reaches forall(): drawn from a generator of its
    # own, so that the spellings of older cases keep their draws
    crng = np.random.default_rng(spec['spell'] + 4711 + int(variant.get('respell', 0)))

    def set_container(cons):
        k = int(crng.integers(11)) - 5
        if k <= 0:
            return (cons,)                              # the list object itself (the common way)
        if k == 1:
            return tuple(cons)                          # several arguments
        if k == 2:
            return ((c_ for c_ in cons),)               # one-shot iterables
        if k == 3:
            return (map(lambda c_: c_, cons),)
        if k == 4:
            return (tuple(cons[:1]), iter(cons[1:])) if len(cons) > 1 else (iter(cons),)
        return (tuple(cons),)
    m = ro.Model()
    B = Built()
    B.model = m
    nx, nz = spec['nx'], spec['nz']
    B.arrays = []          # every ndarray handed to RSOME (for purity checks)

    B.digests = []

    def arr(a):
        a = user_array(a, variant.get('arr'))
        B.arrays.append(a)
        B.digests.append(_digest(a))
        return a

    S.ARR[0] = arr

    order = variant.get('decl_order', 'xzy')
    xs = zs = ys = None
    for ch in order:
        if ch == 'x':
            xs = [m.dvar(s) for s in spec['xsplit']]
        elif ch == 'z':
            zs = [m.rvar(s) for s in spec['zsplit']]
        elif ch == 'y':
            ys = [m.ldr(r['n']) for r in spec['rules']]
    B.xs, B.zs, B.ys = xs, zs, ys
    if variant.get('extra_rvar'):
        m.rvar(int(variant['extra_rvar']))      # an unused random variable declared up front
    zoff = np.concatenate(([0], np.cumsum(spec['zsplit'])))
    xoff = np.concatenate(([0], np.cumsum(spec['xsplit'])))
    # adaptation; the unused late random variable is declared either after all adapt() calls or
    # in the middle of them (after the k-th call)
    B.late_rvar = None
    late_at = int(rng.integers(1, 4)) if (spec.get('late_rvar') and rng.random() < 0.5) else None
    ncalls = [0]

    def adapted():
        ncalls[0] += 1
        if late_at is not None and ncalls[0] == late_at and B.late_rvar is None:
            B.late_rvar = m.rvar(int(spec['late_rvar']))

    for r, y in zip(spec['rules'], ys):
        mask = np.array(r['mask'])
        if mask.size == 0:
            continue
        for bi, z in enumerate(zs):
            sub = mask[:, zoff[bi]:zoff[bi + 1]]
            if sub.all() and rng.random() < 0.7:
                y.adapt(z)
                adapted()
                continue
            for i in range(r['n']):
                if sub[i].all() and sub.shape[1] > 0 and rng.random() < 0.6:
                    y[i].adapt(z)
                    adapted()
                    continue
                for j in range(sub.shape[1]):
                    if sub[i, j]:
                        y[i].adapt(z[j])
                        adapted()
    if spec.get('late_rvar') and B.late_rvar is None:
        # a random variable declared after adapt() and never used anywhere
        B.late_rvar = m.rvar(int(spec['late_rvar']))
    _hook(variant, 'declared', B)
    zfull = zs[0] if len(zs) == 1 else rso.concat(zs)
    B.zfull = zfull

    def zpart(n):
        """first n components of z as 1-D expression"""
        if n == nz:
            return zfull
        if len(zs) == 1:
            return zs[0][:n]
        return zfull[:n]

    def expr(e, split=False):
        a = np.array(e['a'], float)
        P = np.array(e['P'], float)
        q = np.array(e['q'], float)
        terms = []
        for bi, x in enumerate(xs):
            ab = a[xoff[bi]:xoff[bi + 1]]
            if ab.any() or bi == 0:
                terms.append(arr(ab) @ x if rng.random() < 0.5 else (x * arr(ab)).sum())
        ndet = len(terms)
        for i, b in enumerate(e['b']):
            b = np.array(b, float)
            if b.any():
                terms.append(arr(b) @ ys[i])
        for bi, x in enumerate(xs):
            for zi, z in enumerate(zs):
                Pb = P[xoff[bi]:xoff[bi + 1], zoff[zi]:zoff[zi + 1]]
                if Pb.any():
                    sp_ = rng.random()
                    if sp_ < 0.34:
                        terms.append(x @ (arr(Pb) @ z))
                    elif sp_ < 0.67:
                        terms.append((arr(Pb.T) @ x) @ z)
                    else:
                        terms.append(((x @ arr(Pb)) * z).sum())
        for zi, z in enumerate(zs):
            qb = q[zoff[zi]:zoff[zi + 1]]
            if qb.any():
                terms.append(arr(qb) @ z if rng.random() < 0.5 else (z * arr(qb)).sum())
        if split:
            # (here-and-now part, everything that involves rules or random variables or None)
            det = terms[0]
            for t in terms[1:ndet]:
                det = det + t
            rest = None
            for t in terms[ndet:]:
                rest = t if rest is None else rest + t
            return det + e['k'], rest
        if variant.get('shuffle_terms'):
            rng.shuffle(terms)
        out = terms[0]
        for t in terms[1:]:
            out = out + t
        return out + e['k']

    B.expr = expr
    B.zpart = zpart
    dset_constr = S.build_rsome(spec['dset'], zfull, rng)
    B.dset_constr = dset_constr

    # objective
    mode = spec['mode']
    pcs = [expr(e) for e in spec['pieces']]
    flip = bool(variant.get('flip_obj'))
    B.obj_sign = -1.0 if flip else 1.0
    if flip:
        # min f  ==  -max -f   (maxof <-> minof of the negated pieces)
        pcs = [-pc for pc in pcs]
        mode = {'min': 'max', 'max': 'min', 'minmax': 'maxmin', 'maxmin': 'minmax'}[mode]
    if len(pcs) == 1:
        obj = pcs[0]
    else:
        obj = rso.maxof(*pcs) if mode in ('min', 'minmax') else rso.minof(*pcs)
    how = variant.get('set_args', int(rng.integers(4)))
    if how == 0:
        sargs = (dset_constr,)
    elif how == 1:
        sargs = tuple(dset_constr)
    elif how == 2:
        sargs = (tuple(dset_constr[:1]), list(dset_constr[1:]))
    else:
        # (minmax/maxmin/forall take iterables one level deep; deeper nesting is refused loudly)
        sargs = ((c_ for c_ in dset_constr),)          # a generator
    if mode in ('min', 'minmax'):
        m.minmax(obj, *sargs)
    else:
        m.maxmin(obj, *sargs)
    B.obj = obj

    _hook(variant, 'objective', B)
    # bounds on x and on the rules
    xM, yM = spec['xM'], spec['yM']
    B.user_constr = []
    pending_st = []
    xform = variant.get('xbound_form', 0)
    for x in xs:
        if xform == 0:
            m.st(x <= xM)
            m.st(x >= -xM)
        elif xform == 1:
            m.st(1 * x <= xM, -1.0 * x <= xM)
        elif xform == 2:
            m.st(rso.norm(x, 'inf') <= xM)
        elif xform == 3:
            m.st(abs(x) <= xM)
        elif xform == 4:
            for i in range(x.size):
                m.st(x[i] <= xM)
                m.st(-xM <= x[i])
        elif xform == 5:
            m.st(3.0 * rso.norm(x, 'inf') <= 3.0 * xM)        # positively rescaled
        else:
            m.st(rso.norm(x, 'inf') * 0.25 <= np.array(0.25 * xM))
    for y in ys:
        if variant.get('ybound_loop'):
            for i in range(y.size):
                m.st(y[i] <= yM)
                m.st(y[i] >= -yM)
        else:
            m.st(y <= yM)
            m.st(y >= -yM)
    rows = list(enumerate(spec['rows']))
    if variant.get('row_order'):
        rows = [rows[i] for i in np.random.default_rng(variant['row_order']).permutation(
            len(rows))]
    rrng = np.random.default_rng(int(variant.get('row_form', 0)) + 12345)
    # rows that share the default set and a sense may be written as ONE vector constraint
    vec_done = set()
    if variant.get('vectorize', rng.random() < 0.5) and not variant.get('rescale_rows') \
            and not variant.get('row_form'):
        for sense in ('le', 'ge'):
            grp = [(k_, r_) for k_, r_ in rows if r_['sense'] == sense and r_.get('set') is None]
            if len(grp) < 2:
                continue
            A_ = np.array([r_['e']['a'] for _, r_ in grp], float)
            Q_ = np.array([r_['e']['q'] for _, r_ in grp], float)
            kv = np.array([r_['e']['k'] for _, r_ in grp], float)
            rh = np.array([r_['rhs'] for _, r_ in grp], float)
            Pst = np.array([r_['e']['P'] for _, r_ in grp], float)       # (R, nx, nz)
            lhs = None
            for bi, x in enumerate(xs):
                t_ = arr(A_[:, xoff[bi]:xoff[bi + 1]]) @ x
                lhs = t_ if lhs is None else lhs + t_
                for i in range(x.size):
                    Pi = Pst[:, xoff[bi] + i, :]
                    if Pi.any():
                        for zi, z in enumerate(zs):
                            Pz = Pi[:, zoff[zi]:zoff[zi + 1]]
                            if Pz.any():
                                lhs = lhs + x[i] * (arr(Pz) @ z)
            for zi, z in enumerate(zs):
                Qz = Q_[:, zoff[zi]:zoff[zi + 1]]
                if Qz.any():
                    lhs = lhs + arr(Qz) @ z
            for i_, y in enumerate(ys):
                Bm = np.array([r_['e']['b'][i_] for _, r_ in grp], float)
                if Bm.any():
                    lhs = lhs + arr(Bm) @ y
            lhs = lhs + arr(kv)
            c = (lhs <= arr(rh)) if sense == 'le' else (lhs >= arr(rh))
            B.user_constr.append(c)
            m.st(c)
            vec_done |= {k_ for k_, _ in grp}
            _hook(variant, 'row', B)
    B.vectorized = sorted(vec_done)
    late_forall = []
    for k_, row in rows:
        if k_ in vec_done:
            continue
        _hook(variant, 'row', B)
        lhs = expr(row['e'])
        rhs = row['rhs']
        form = int(rrng.integers(4)) if variant.get('row_form') else int(rng.integers(4))
        scale = float(np.round(rrng.uniform(0.2, 5.0), 2)) if variant.get('rescale_rows') else 1.0
        if scale != 1.0:
            lhs = scale * lhs
            rhs = scale * rhs
        sense = row['sense']
        own = None
        if row.get('set') is not None:
            own = lambda row=row: S.build_rsome(row['set'], zpart(spec['nzr']), rng)
        if sense == 'eq' and variant.get('split_eq'):
            cs = [lhs <= rhs, lhs >= rhs]
        elif sense == 'eq' and form == 3 and scale == 1.0:
            # the here-and-now part alone on the left, rules and random terms on the right
            det_, rest_ = expr(row['e'], split=True)
            cs = [det_ == rhs - rest_] if rest_ is not None else [det_ == rhs]
        elif sense == 'eq':
            cs = [lhs == rhs] if form % 2 == 0 else [rhs == lhs]
        else:
            le = sense == 'le'
            if form == 0:
                cs = [lhs <= rhs if le else lhs >= rhs]
            elif form == 1:
                cs = [-lhs >= -rhs if le else -lhs <= -rhs]
            elif form == 2:
                cs = [rhs >= lhs if le else rhs <= lhs]
            else:
                cs = [np.array(rhs) >= lhs if le else np.array(rhs) <= lhs]
        for c in cs:
            if own is not None and variant.get('late_forall') and type(c).__name__ == 'RoConstr' \
                    and not variant.get('st_nested'):
                # the constraint enters the model with the default set; its own set is attached
                # to the same object later (forall() sets the support in place), after whatever
                # the hook does in between
                late_forall.append((c, own))
            elif own is not None:
                c = c.forall(*set_container(own()))
            B.user_constr.append(c)
            if variant.get('st_nested'):
                pending_st.append(c)
            else:
                m.st(c)
    if pending_st:        # st() recurses into nested collections
        m.st([pending_st[:1], (tuple(pending_st[1:2]), [pending_st[2:]])])
    if late_forall:
        _hook(variant, 'late_forall', B)
        for c, own in late_forall:
            c.forall(*set_container(own()))
    B.late_forall = len(late_forall)
    return B


def read_solution(spec, B):
    """x, y0 list, Y list (NaN -> 0) as the user gets them from get()."""
    x = np.concatenate([np.atleast_1d(v.get()).reshape(-1) for v in B.xs])
    y0, Y = [], []
    nz = spec['nz']
    for r, y in zip(spec['rules'], B.ys):
        y0.append(np.atleast_1d(y.get()).reshape(-1))
        mask = np.array(r['mask'])
        Yi = np.zeros((r['n'], nz))
        if mask.any():
            off = 0
            for z in B.zs:
                c = np.nan_to_num(np.asarray(y.get(z), float).reshape(r['n'], -1), nan=0.0)
                Yi[:, off:off + c.shape[1]] = c
                off += c.shape[1]
        Y.append(Yi)
    return x, y0, Y


# ------------------------------------------------------------------ oracle rows

def all_rows(spec):
    """Every robust requirement as (kind, e, sgn, rhs, prims, n, tag):
    sgn*(value(z)) <= sgn*rhs for all z in prims."""
    out = []
    zero = {'a': [0.0] * spec['nx'], 'b': [[0.0] * r['n'] for r in spec['rules']],
            'P': np.zeros((spec['nx'], spec['nz'])).tolist(), 'q': [0.0] * spec['nz'], 'k': 0.0}
    for i, r in enumerate(spec['rules']):
        for rr in range(r['n']):
            e = dict(zero)
            e['b'] = [([1.0 if (ii == i and k == rr) else 0.0 for k in range(rl['n'])])
                      for ii, rl in enumerate(spec['rules'])]
            out.append(('ybound', e, 1, spec['yM'], spec['dset'], spec['nz'], 'y%d[%d]<=M' % (i, rr)))
            out.append(('ybound', e, -1, -spec['yM'], spec['dset'], spec['nz'], 'y%d[%d]>=-M' % (i, rr)))
    for k, row in enumerate(spec['rows']):
        prims, n = row_set(spec, row)
        if row['sense'] in ('le', 'eq'):
            out.append(('row', row['e'], 1, row['rhs'], prims, n, 'row%d<=' % k))
        if row['sense'] in ('ge', 'eq'):
            out.append(('row', row['e'], -1, row['rhs'], prims, n, 'row%d>=' % k))
    return out


def worst_value(prims, n, alpha, beta, sgn, z0=None):
    """max over the set of sgn*(alpha + beta.z); returns (value, z, exact)."""
    z, exact = S.maximize(prims, sgn * beta[:n], n, z0=z0)
    if z is None:
        return None, None, False
    return sgn * (alpha + beta[:n] @ z), z, exact


# ------------------------------------------------------------------ reference solver

class Ref:
    pass


def reference(spec, max_iter=80, tol=1e-7, nominal=False):
    """Cutting-plane solution of the semi-infinite problem the spec denotes.
    nominal=True: only the centre realisation is used (the nominal problem)."""
    nx, nz = spec['nx'], spec['nz']
    rules = spec['rules']
    # variable layout: x | y0_i | Y_i (masked entries) | t
    off = nx
    y0_off = []
    for r in rules:
        y0_off.append(off)
        off += r['n']
    Y_idx = []
    for r in rules:
        mask = np.array(r['mask']).reshape(r['n'], nz)
        idx = -np.ones((r['n'], nz), int)
        for a in range(r['n']):
            for b in range(nz):
                if mask[a, b]:
                    idx[a, b] = off
                    off += 1
        Y_idx.append(idx)
    tvar = off
    nv = off + 1

    def lin_row(e, z):
        """coefficients of value(v; z) in v (without constant) and the constant."""
        z = _pad(z, nz)
        row = np.zeros(nv)
        row[:nx] = np.array(e['a'], float) + np.array(e['P'], float) @ z
        for i, b in enumerate(e['b']):
            b = np.array(b, float)
            row[y0_off[i]:y0_off[i] + rules[i]['n']] += b
            idx = Y_idx[i]
            for a in range(rules[i]['n']):
                if b[a] != 0:
                    for bb in range(nz):
                        if idx[a, bb] >= 0:
                            row[idx[a, bb]] += b[a] * z[bb]
        const = float(np.array(e['q'], float) @ z + e['k'])
        return row, const

    reqs = all_rows(spec)
    mode = spec['mode']
    osgn = 1 if mode in ('min', 'minmax') else -1
    for pi, e in enumerate(spec['pieces']):
        reqs.append(('obj', e, osgn, None, spec['dset'], nz, 'obj%d' % pi))

    zc = np.array(spec['dcenter'], float)
    pools = {}

    def pool_for(prims, n):
        key = id(prims)
        if key not in pools:
            pts = []
            z0 = zc[:n] if prims is spec['dset'] else None
            if z0 is not None:
                pts.append(z0)
            if nominal:
                if z0 is None:
                    z0, _ = S.maximize(prims, np.zeros(n), n)
                    pts.append(z0)
                pools[key] = [prims, n, pts]
                return pools[key]
            for j in range(n):
                for sg in (1.0, -1.0):
                    a = np.zeros(n)
                    a[j] = sg
                    z, _ = S.maximize(prims, a, n, z0=z0)
                    if z is not None:
                        pts.append(z)
            pools[key] = [prims, n, pts]
        return pools[key]

    A, b = [], []

    def add_cut(req, z):
        kind, e, sgn, rhs, prims, n, tag = req
        row, const = lin_row(e, z)
        if kind == 'obj':
            r = sgn * row
            r[tvar] = -1.0
            A.append(r)
            b.append(-sgn * const)
        else:
            A.append(sgn * row)
            b.append(sgn * (rhs - const))

    for req in reqs:
        pl = pool_for(req[4], req[5])
        for z in pl[2]:
            add_cut(req, z)

    bounds = [(-spec['xM'], spec['xM'])] * nx + [(None, None)] * (nv - nx)
    BIG = 1e5
    cobj = np.zeros(nv)
    cobj[tvar] = 1.0
    R = Ref()
    R.iterations = 0
    R.status = 'maxiter'
    R.exact = True
    for it in range(max_iter):
        R.iterations = it + 1
        res = linprog(cobj, A_ub=np.array(A), b_ub=np.array(b), bounds=bounds, method='highs')
        if res.status == 3:
            bounds2 = [(lo if lo is not None else -BIG, hi if hi is not None else BIG)
                       for lo, hi in bounds]
            res = linprog(cobj, A_ub=np.array(A), b_ub=np.array(b), bounds=bounds2,
                          method='highs')
        if res.status == 2:
            R.status = 'infeasible'
            return R
        if res.status != 0:
            R.status = 'lp_status_%d' % res.status
            return R
        v = res.x
        x = v[:nx]
        y0 = [v[y0_off[i]:y0_off[i] + r['n']] for i, r in enumerate(rules)]
        Y = []
        for i, r in enumerate(rules):
            Yi = np.zeros((r['n'], nz))
            m_ = Y_idx[i] >= 0
            Yi[m_] = v[Y_idx[i][m_]]
            Y.append(Yi)
        worst = 0.0
        added = 0
        if nominal:
            R.status = 'optimal'
            break
        for req in reqs:
            kind, e, sgn, rhs, prims, n, tag = req
            al, be = coeffs(spec, e, x, y0, Y)
            val, z, exact = worst_value(prims, n, al, be, sgn,
                                        z0=zc[:n] if prims is spec['dset'] else None)
            if z is None:
                R.status = 'oracle_failed'
                return R
            if not exact:
                R.exact = False
            lim = v[tvar] if kind == 'obj' else sgn * rhs
            exc = val - lim
            if exc > tol * (1 + abs(lim)):
                worst = max(worst, exc)
                add_cut(req, z)
                pools[id(prims)][2].append(z)
                added += 1
        if added == 0:
            R.status = 'optimal'
            break
    R.value = osgn * float(v[tvar])
    R.x, R.y0, R.Y = x, y0, Y
    R.big_hit = bool(np.max(np.abs(v)) > BIG * 0.99)
    if R.big_hit:
        R.status = 'unbounded_guard'
    R.pools = {k: p[2] for k, p in pools.items()}
    R.pool_sets = {k: p[0] for k, p in pools.items()}
    R.ncuts = len(A)
    R.master = {'c': cobj, 'A': np.array(A), 'b': np.array(b), 'bounds': bounds, 'tvar': tvar,
                'osgn': osgn}
    return R


def objective_worst(spec, x, y0, Y):
    """Worst-case objective of given decisions: (value in user's sense, witness z, exact)."""
    mode = spec['mode']
    osgn = 1 if mode in ('min', 'minmax') else -1
    nz = spec['nz']
    zc = np.array(spec['dcenter'], float)
    best, bz, ex = -np.inf, None, True
    for e in spec['pieces']:
        al, be = coeffs(spec, e, x, y0, Y)
        val, z, exact = worst_value(spec['dset'], nz, al, be, osgn, z0=zc)
        if val is None:
            return None, None, False
        ex = ex and exact
        if val > best:
            best, bz = val, z
    return osgn * best, bz, ex


# ------------------------------------------------------------------ solving helpers

def pick_solver(formula, rng=None):
    from rv.common import cone_class
    c = cone_class(formula)
    r = rng.random() if rng is not None else 0.0
    if c == 'L':
        return 'def' if r < 0.55 else 'grb' if r < 0.75 else 'ort' if r < 0.9 else 'eco'
    if c == 'LI':
        return 'def' if r < 0.5 else 'grb' if r < 0.8 else 'ort'
    if c in ('Q', 'QI'):
        return 'eco' if (r < 0.5 and c == 'Q') else 'grb'
    return 'eco'


def tol_for(sname, scale=1.0):
    base = 2e-6 if sname in ('def', 'lpg', 'ort', 'grb') else 5e-5
    return base * (1.0 + scale)


def build_dro_single(spec, variant=None):
    """The same declared model written as a single-scenario dro.Model (no expectation
    information): static variables -> dvar, decision rules -> dvar with affine adaptation."""
    import rsome as rso
    from rsome import dro
    variant = variant or {}
    rng = np.random.default_rng(spec['spell'] + 99 + int(variant.get('respell', 0)))
    m = dro.Model()
    B = Built()
    B.model = m
    B.obj_sign = 1.0
    B.arrays, B.digests = [], []
    nx, nz = spec['nx'], spec['nz']
    xs = [m.dvar(s_) for s_ in spec['xsplit']]
    zs = [m.rvar(s_) for s_ in spec['zsplit']]
    ys = [m.dvar(r['n']) for r in spec['rules']]
    B.xs, B.zs, B.ys = xs, zs, ys
    zoff = np.concatenate(([0], np.cumsum(spec['zsplit'])))
    xoff = np.concatenate(([0], np.cumsum(spec['xsplit'])))
    for r, y in zip(spec['rules'], ys):
        mask = np.array(r['mask'])
        for bi, z in enumerate(zs):
            sub = mask[:, zoff[bi]:zoff[bi + 1]]
            for i in range(r['n']):
                for j in range(sub.shape[1]):
                    if sub[i, j]:
                        y[i].adapt(z[j])
    zfull = zs[0] if len(zs) == 1 else rso.concat(zs)

    def zpart(n):
        if n == nz:
            return zfull
        return zs[0][:n] if len(zs) == 1 else zfull[:n]

    def expr(e):
        a = np.array(e['a'], float)
        P = np.array(e['P'], float)
        q = np.array(e['q'], float)
        terms = []
        for bi, x in enumerate(xs):
            ab = a[xoff[bi]:xoff[bi + 1]]
            if ab.any() or bi == 0:
                terms.append(ab @ x)
        for i, b in enumerate(e['b']):
            b = np.array(b, float)
            if b.any():
                terms.append(b @ ys[i])
        for bi, x in enumerate(xs):
            for zi, z in enumerate(zs):
                Pb = P[xoff[bi]:xoff[bi + 1], zoff[zi]:zoff[zi + 1]]
                if Pb.any():
                    terms.append(x @ (Pb @ z) if rng.random() < 0.5 else (Pb.T @ x) @ z)
        for zi, z in enumerate(zs):
            qb = q[zoff[zi]:zoff[zi + 1]]
            if qb.any():
                terms.append(qb @ z)
        out = terms[0]
        for t in terms[1:]:
            out = out + t
        return out + e['k']

    fset = m.ambiguity()
    sc = list(S.build_rsome(spec['dset'], zfull, rng))
    how = (variant or {}).get('set_args', 0)
    if how == 4:          # suppset flattens its arguments completely
        fset.suppset([tuple(sc[:1]), [list(sc[1:])]])
    elif how == 1:
        fset.suppset(*sc)
    else:
        fset.suppset(sc)
    mode = spec['mode']
    pcs = [expr(e) for e in spec['pieces']]
    if len(pcs) == 1:
        obj = pcs[0]
    else:
        obj = rso.maxof(*pcs) if mode in ('min', 'minmax') else rso.minof(*pcs)
    if mode in ('min', 'minmax'):
        m.minsup(obj, fset)
    else:
        m.maxinf(obj, fset)
    xM, yM = spec['xM'], spec['yM']
    for x in xs:
        m.st(x <= xM, x >= -xM)
    for y in ys:
        m.st(y <= yM, y >= -yM)
    pending = []
    for row in spec['rows']:
        lhs = expr(row['e'])
        c = (lhs <= row['rhs'] if row['sense'] == 'le' else lhs >= row['rhs']
             if row['sense'] == 'ge' else lhs == row['rhs'])
        if row.get('set') is not None:
            c = c.forall(S.build_rsome(row['set'], zpart(spec['nzr']), rng))
        if (variant or {}).get('st_nested'):
            pending.append(c)
        else:
            m.st(c)
    if pending:           # st() recurses into nested collections
        m.st([pending[:1], (tuple(pending[1:2]), [pending[2:]])])
    return B
