"""Independent reader of the CPLEX-LP text format (the subset any LP writer
needs): objective, linear rows, quadratic rows of the form
[ x_i ^2 + ... - x_k ^2 ] <= 0, Bounds, General, Binary, End.
Returns plain arrays; raises LPFormatError on anything it cannot read."""
import re

import numpy as np


class LPFormatError(Exception):
    pass


_SECTION = re.compile(r'^(minimize|maximize|minimum|maximum|min|max|subject to|such that|st|s\.t\.|'
                      r'bounds|bound|general|generals|gen|integer|integers|binary|binaries|bin|'
                      r'end)\s*$', re.I)
_NUM = re.compile(r'^[+-]?(\d+\.?\d*(e[+-]?\d+)?|\.\d+(e[+-]?\d+)?|inf|infinity|nan)$', re.I)
_VAR = re.compile(r'^x(\d+)$')


def _float(tok):
    t = tok.lower()
    if t in ('inf', '+inf', 'infinity', '+infinity'):
        return float('inf')
    if t in ('-inf', '-infinity'):
        return float('-inf')
    return float(tok)


def _linear_expr(tokens, where):
    """tokens of a linear expression -> dict var_index(0-based) -> coefficient (summed)."""
    coefs = {}
    sign = 1.0
    num = None
    seen_sign = False
    for tok in tokens:
        if tok in ('+', '-'):
            if num is not None:
                raise LPFormatError('dangling number before sign in ' + where)
            sign = sign * (-1.0 if tok == '-' else 1.0) if seen_sign else (-1.0 if tok == '-' else 1.0)
            seen_sign = True
            continue
        m = _VAR.match(tok)
        if m:
            j = int(m.group(1)) - 1
            c = sign * (1.0 if num is None else num)
            coefs[j] = coefs.get(j, 0.0) + c
            sign, num, seen_sign = 1.0, None, False
            continue
        if _NUM.match(tok):
            if num is not None:
                raise LPFormatError('two numbers in a row in ' + where)
            num = _float(tok)
            continue
        raise LPFormatError('unexpected token %r in %s' % (tok, where))
    if num is not None:
        raise LPFormatError('constant term without variable in ' + where)
    return coefs


def parse(text):
    lines = text.split('\n')
    section = None
    obj_sense = None
    obj = {}
    rows = []      # (name, coefs, sense, rhs)
    qrows = []     # (name, plus list, minus list)
    bounds = {}
    generals, binaries = [], []
    ended = False
    maxvar = -1
    for ln in lines:
        raw = ln.strip()
        if not raw:
            continue
        if ended:
            raise LPFormatError('text after End')
        m = _SECTION.match(raw)
        if m:
            key = m.group(1).lower()
            if key.startswith('min'):
                section, obj_sense = 'obj', 'min'
            elif key.startswith('max'):
                section, obj_sense = 'obj', 'max'
            elif key in ('subject to', 'such that', 'st', 's.t.'):
                section = 'rows'
            elif key.startswith('bound'):
                section = 'bounds'
            elif key.startswith('gen') or key.startswith('int'):
                section = 'general'
            elif key.startswith('bin'):
                section = 'binary'
            else:
                ended = True
            continue
        if section == 'obj':
            body = raw
            if ':' in body:
                body = body.split(':', 1)[1]
            obj_part = _linear_expr(body.split(), 'objective')
            for k, v in obj_part.items():
                obj[k] = obj.get(k, 0.0) + v
        elif section == 'rows':
            name, body = (raw.split(':', 1) + [''])[:2] if ':' in raw else ('', raw)
            body = body.strip()
            if body.startswith('['):
                mm = re.match(r'^\[(.*)\]\s*(<=|=<|<)\s*(\S+)$', body)
                if not mm or _float(mm.group(3)) != 0:
                    raise LPFormatError('unsupported quadratic row: ' + raw)
                toks = mm.group(1).split()
                plus, minus = [], []
                sign = 1
                i = 0
                while i < len(toks):
                    t = toks[i]
                    if t in ('+', '-'):
                        sign = 1 if t == '+' else -1
                        i += 1
                        continue
                    vm = _VAR.match(t)
                    if not vm or i + 1 >= len(toks) or toks[i + 1] != '^2':
                        raise LPFormatError('unsupported quadratic term in: ' + raw)
                    (plus if sign > 0 else minus).append(int(vm.group(1)) - 1)
                    sign = 1
                    i += 2
                qrows.append((name.strip(), plus, minus))
                continue
            mm = re.match(r'^(.*?)(<=|=<|>=|=>|=|<|>)\s*(\S+)$', body)
            if not mm:
                raise LPFormatError('cannot split row: ' + raw)
            coefs = _linear_expr(mm.group(1).split(), 'row ' + name)
            op = mm.group(2)
            sense = '<=' if op in ('<=', '=<', '<') else '>=' if op in ('>=', '=>', '>') else '='
            rows.append((name.strip(), coefs, sense, _float(mm.group(3))))
        elif section == 'bounds':
            mm = re.match(r'^(\S+)\s*<=\s*x(\d+)\s*<=\s*(\S+)$', raw)
            if mm:
                j = int(mm.group(2)) - 1
                bounds[j] = (_float(mm.group(1)), _float(mm.group(3)))
                continue
            mm = re.match(r'^x(\d+)\s+free$', raw, re.I)
            if mm:
                bounds[int(mm.group(1)) - 1] = (float('-inf'), float('inf'))
                continue
            # one-sided lines change one side only; the other side keeps its value (the
            # format's default lower bound 0 unless set before)
            mm = re.match(r'^x(\d+)\s*(<=|>=|=<|=>|=)\s*(\S+)$', raw)
            m2 = re.match(r'^(\S+)\s*(<=|>=|=<|=>|=)\s*x(\d+)$', raw)
            if mm or m2:
                if mm:
                    j, op, val = int(mm.group(1)) - 1, mm.group(2), _float(mm.group(3))
                else:
                    j, op, val = int(m2.group(3)) - 1, m2.group(2), _float(m2.group(1))
                    op = {'<=': '>=', '=<': '>=', '>=': '<=', '=>': '<=', '=': '='}[op]
                lo, hi = bounds.get(j, (0.0, float('inf')))
                if op in ('<=', '=<'):
                    hi = val
                elif op in ('>=', '=>'):
                    lo = val
                else:
                    lo = hi = val
                bounds[j] = (lo, hi)
                continue
            raise LPFormatError('unsupported bound line: ' + raw)
        elif section in ('general', 'binary'):
            for tok in raw.split():
                vm = _VAR.match(tok)
                if not vm:
                    raise LPFormatError('bad variable in %s section: %s' % (section, tok))
                (generals if section == 'general' else binaries).append(int(vm.group(1)) - 1)
        else:
            raise LPFormatError('text outside any section: ' + raw)
    if not ended:
        raise LPFormatError('missing End')
    for d in [obj] + [r[1] for r in rows]:
        if d:
            maxvar = max(maxvar, max(d))
    for q in qrows:
        maxvar = max([maxvar] + q[1] + q[2])
    if bounds:
        maxvar = max(maxvar, max(bounds))
    n = maxvar + 1
    A = np.zeros((len(rows), n))
    rhs = np.zeros(len(rows))
    sense = []
    for i, (name, coefs, sn, b) in enumerate(rows):
        for j, v in coefs.items():
            A[i, j] = v
        rhs[i] = b
        sense.append(sn)
    c = np.zeros(n)
    for j, v in obj.items():
        c[j] = v
    # LP-format default bounds are [0, inf) unless stated
    lb = np.zeros(n)
    ub = np.full(n, np.inf)
    for j, (lo, hi) in bounds.items():
        lb[j], ub[j] = lo, hi
    vtype = np.array(['C'] * n)
    for j in generals:
        vtype[j] = 'I'
    for j in binaries:
        vtype[j] = 'B'
    return {'sense': obj_sense, 'obj': c, 'A': A, 'row_sense': sense, 'rhs': rhs, 'lb': lb,
            'ub': ub, 'vtype': vtype, 'qrows': qrows, 'n': n,
            'row_names': [r[0] for r in rows]}
