"""Element-wise atoms on matrix-shaped operands that broadcast against each other.

  y  >=  mult * atom(x ; parameter)  + k        (convex atoms;  <= for the concave ones)

x is pinned to X0 by an equality, y is pushed against the constraint by the objective, so the
returned y must be NumPy's  mult*atom(X0; parameter) + k  broadcast to y's shape, entry by
entry.  The shapes of x, of the parameter (scale of a perspective atom, exponents of power) and
of y are drawn from everything NumPy broadcasting allows on a small base shape: full matrix,
column (a,1), row (1,b), vector (b,), scalar, and - for parameters - one extra leading axis.

Used by C06 (the written constraint holds entry-wise at the returned point, the reported
objective is the objective expression) and C07 (the encoding is exact: y equals the closed
form)."""
import numpy as np

from rv import common as C

ATOMS = ['exp', 'softplus', 'log', 'pexp', 'plog', 'power', 'square', 'abs']
CONCAVE = ('log', 'plog')


def _shape(rng, a, b, kinds):
    k = kinds[int(rng.integers(len(kinds)))]
    return {'full': (a, b), 'col': (a, 1), 'row': (1, b), 'vec': (b,), 'scalar': (),
            'lead': (2, a, b), 'leadrow': (2, 1, b)}[k], k


def gen(rng, tier):
    a, b = int(rng.integers(2, 4)), int(rng.integers(2, 4))
    atom = ATOMS[int(rng.integers(len(ATOMS)))]
    sx, kx = _shape(rng, a, b, ['full', 'full', 'col', 'row', 'vec'])
    has_param = atom in ('pexp', 'plog', 'power')
    sp_, kp = _shape(rng, a, b, ['full', 'col', 'row', 'vec', 'scalar', 'lead', 'leadrow']) \
        if has_param else ((), 'none')
    sy = np.broadcast_shapes(sx, sp_, (a, b) if rng.random() < 0.7 else sx)
    mutual = False
    if rng.random() < 0.25:
        # the two sides of the comparison broadcast against EACH OTHER: the grid is larger than
        # both (x a row / vector, y a column, or the other way round)
        mutual = True
        if rng.random() < 0.5:
            sx, kx = [((b,), 'vec'), ((1, b), 'row')][int(rng.integers(2))]
            sy = (a, 1)
        else:
            sx, kx = (a, 1), 'col'
            sy = [(b,), (1, b)][int(rng.integers(2))]
        if rng.random() < 0.4:
            atom, has_param, sp_, kp = 'square', False, (), 'none'
        if has_param and kp not in ('scalar',):
            sp_, kp = sx, 'as_x'
    if atom in ('log', 'plog'):
        X0 = np.round(rng.uniform(0.3, 3.0, sx), 2)
    elif atom == 'power':
        X0 = np.round(rng.uniform(-2.0, 2.0, sx), 2)
        X0[np.abs(X0) < 0.2] = 0.7
    else:
        X0 = np.round(rng.uniform(-1.5, 1.5, sx), 2)
    spec = {'kind': 'bcast', 'front': 'ro' if rng.random() < 0.6 else 'dro', 'atom': atom,
            'sx': list(sx), 'sy': list(sy), 'kx': kx, 'kp': kp, 'X0': X0.tolist(), 'mutual': mutual,
            'mult': float(np.round(rng.uniform(0.5, 2.5), 2)) if rng.random() < 0.6 else 1.0,
            'k': float(np.round(rng.uniform(-1, 1), 2)) if rng.random() < 0.6 else 0.0,
            'inner': [float(np.round(rng.uniform(0.5, 2.0), 2)), float(np.round(rng.uniform(0, 1), 2))]
            if rng.random() < 0.4 else [1.0, 0.0],
            'spell': int(rng.integers(3))}
    if atom in ('pexp', 'plog'):
        spec['scale'] = np.round(rng.uniform(0.5, 2.5, sp_), 2).tolist()
    if atom == 'power':
        q = rng.integers(1, 4, sp_)
        p = q + rng.integers(0, 4, sp_) * (rng.random(sp_) < 0.75)     # some entries with p == q
        if np.all(p == q):
            p = p + 1 if p.ndim == 0 else p
            if p.ndim:
                p.flat[0] = q.flat[0] + 2
        spec['p'], spec['q'] = np.asarray(p).tolist(), np.asarray(q).tolist()
    if atom in ('log', 'plog') and spec['inner'] != [1.0, 0.0]:
        pass        # a*x + c stays positive for positive x
    return spec


def closed_form(spec, X0=None):
    X = np.array(spec['X0'], float) if X0 is None else np.asarray(X0, float)
    u = spec['inner'][0] * X + spec['inner'][1]
    a = spec['atom']
    if a == 'exp':
        v = np.exp(u)
    elif a == 'softplus':
        v = np.log1p(np.exp(u))
    elif a == 'log':
        v = np.log(u)
    elif a == 'pexp':
        s = np.array(spec['scale'], float)
        v = s * np.exp(u / s)
    elif a == 'plog':
        s = np.array(spec['scale'], float)
        v = s * np.log(u / s)
    elif a == 'power':
        v = np.abs(u) ** (np.array(spec['p'], float) / np.array(spec['q'], float))
    elif a == 'square':
        v = u ** 2
    else:
        v = np.abs(u)
    g = spec['mult'] * v + spec['k']
    sy = tuple(spec['sy'])
    if not spec.get('mutual'):
        return np.broadcast_to(g, sy)
    # y_i has to dominate (be dominated by) every grid entry it is broadcast to
    full = np.broadcast_shapes(g.shape, sy)
    G = np.broadcast_to(g, full)
    red = np.max if spec['atom'] not in CONCAVE else np.min
    lead = len(full) - len(sy)
    out = G
    if lead:
        out = red(out, axis=tuple(range(lead)))
    for ax, d in enumerate(sy):
        if d == 1 and out.shape[ax] != 1:
            out = red(out, axis=ax, keepdims=True)
    return out.reshape(sy)


def build(spec):
    import rsome as rso
    from rsome import ro, dro
    m = ro.Model() if spec['front'] == 'ro' else dro.Model()
    sx, sy = tuple(spec['sx']), tuple(spec['sy'])
    x = m.dvar(sx)
    y = m.dvar(sy)
    u = spec['inner'][0] * x + spec['inner'][1] if spec['inner'] != [1.0, 0.0] else x
    a = spec['atom']
    if a == 'exp':
        at = rso.exp(u)
    elif a == 'softplus':
        at = rso.softplus(u)
    elif a == 'log':
        at = rso.log(u)
    elif a == 'pexp':
        s = np.array(spec['scale'], float)
        at = rso.pexp(u, s if s.ndim else float(s))
    elif a == 'plog':
        s = np.array(spec['scale'], float)
        at = rso.plog(u, s if s.ndim else float(s))
    elif a == 'power':
        p, q = np.array(spec['p']), np.array(spec['q'])
        at = rso.power(u, p if p.ndim else int(p), q if q.ndim else int(q))
    elif a == 'square':
        at = rso.square(u)
    else:
        at = abs(u)
    e = spec['mult'] * at if spec['mult'] != 1.0 else at
    if spec['k'] != 0.0:
        e = e + spec['k']
    concave = a in CONCAVE
    sp_ = spec['spell']
    if concave:
        con = [y <= e, e >= y, y - e <= 0][sp_]
        m.max(y.sum())
    else:
        con = [y >= e, e <= y, e - y <= 0][sp_]
        m.min(y.sum())
    m.st(con)
    m.st(x == np.array(spec['X0'], float))
    return m, x, y


def run(spec, ctx, exact_tol=None):
    """Returns a result dict (status held / violation / skip)."""
    feats = {'class': 'bcast', 'front': spec['front'], 'atom': spec['atom'], 'x': spec['kx'],
             'param': spec['kp'], 'y': 'x'.join(str(d) for d in spec['sy']),
             'affine_inside': spec['inner'] != [1.0, 0.0], 'mutual': bool(spec.get('mutual'))}
    sig = '|'.join('%s=%s' % (k, feats[k]) for k in sorted(feats))
    try:
        m, x, y = build(spec)
        f = m.do_math()
    except Exception as e:
        ctx.count('bcast_rsome_raises:%s:%s' % (spec['atom'], type(e).__name__))
        return {'status': 'skip', 'reason': 'rsome raised at build: %s' % type(e).__name__}
    cls = C.cone_class(f)
    sname = 'eco' if cls[0] in 'XQ' else 'def'
    try:
        C.solve(m, sname)
    except Exception as e:
        ctx.count('bcast_rsome_raises_solve:%s:%s' % (spec['atom'], type(e).__name__))
        return {'status': 'skip', 'reason': 'rsome raised at solve: %s' % type(e).__name__}
    if not C.optimal(m):
        st = str(getattr(m.solution, 'status', None))
        if C.definitive_failure(sname, st):
            return {'status': 'violation', 'mechanism': 'bcast:not_solved:' + spec['atom'],
                    'detail': {'what': 'a pinned, feasible and bounded model is reported '
                               'infeasible/unbounded', 'status': st, 'spec_shapes': feats},
                    'features': feats, 'sig': sig, 'nontrivial': True}
        return {'status': 'skip', 'reason': 'not optimal: %s' % st}
    if sname == 'eco' and 'Optimal' not in str(m.solution.status):
        return {'status': 'skip', 'reason': 'ECOS inaccurate'}
    ctx.count('bcast_models_solved')
    xv = np.asarray(x.get(), float).reshape(tuple(spec['sx']))
    yv = np.asarray(y.get(), float).reshape(tuple(spec['sy']))
    want = closed_form(spec)
    tol = exact_tol or (2e-5 if sname == 'def' else 2e-4)
    scale = 1 + np.abs(want)
    detail = []
    # C06 flavour: the constraint as written, evaluated at the returned point
    rhs = closed_form(spec, xv)       # (for mutual broadcasting: the binding grid entry per y)
    gap = (rhs - yv) if spec['atom'] not in CONCAVE else (yv - rhs)
    if np.max(gap / scale) > 10 * tol:
        i = np.unravel_index(np.argmax(gap / scale), gap.shape)
        detail.append({'what': 'written constraint violated at the returned point',
                       'entry': [int(k) for k in i], 'y': float(yv[i]), 'atom_value': float(rhs[i])})
    # C07 flavour: the encoding is exact
    if np.max(np.abs(yv - want) / scale) > 10 * tol:
        i = np.unravel_index(np.argmax(np.abs(yv - want) / scale), want.shape)
        detail.append({'what': 'returned y differs from the closed form', 'entry': [int(k) for k in i],
                       'y': float(yv[i]), 'closed_form': float(want[i])})
    val = float(m.get())
    if abs(val - float(yv.sum())) > 10 * tol * (1 + abs(val)):
        detail.append({'what': 'reported objective differs from sum(y)', 'reported': val,
                       'sum_y': float(yv.sum())})
    if detail:
        return {'status': 'violation', 'mechanism': 'bcast:%s:%s' % (spec['atom'], detail[0]['what'][:40]),
                'detail': detail[:3], 'features': feats, 'sig': sig, 'nontrivial': True}
    return {'status': 'held', 'features': feats, 'sig': sig, 'nontrivial': True,
            'observed': {'value': val, 'entries': int(yv.size)}}
