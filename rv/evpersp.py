"""Perspective / exponential-cone constraints of dro models whose arguments have DIFFERENT
event-wise adaptivity (scale adaptive and argument static, right-hand side adaptive and the atom
static, ...), with the constraint object created before or after the adapt() calls.

  S scenarios, fixed probabilities, one unused random variable
  x, a, s  scalar decisions; x is pinned (x == x0); one of s / a is event-wise on a random
           partition, the other one is pinned
  pexp :  s * exp(x / s) <= a           plog :  s * log(x / s) >= a        expcone(a, x, s)

  scale adaptive :  maxinf E(s)   - every event's s is pushed to the larger root of the constraint
  rhs adaptive   :  minsup E(a)   (pexp/expcone) or maxinf E(a) (plog) - every event's a is pushed
                    against the atom value

Oracle (C06: the constraint holds as written, in every scenario, at the returned point; C07:
the encoding is exact): the written inequality is evaluated in NumPy with the values get()
returns for every scenario, and the event-wise values are compared with the closed form (the
root of the scalar equation / the atom value)."""
import numpy as np

from rv import common as C
from rv import dromodel as DR

ATOMS = ['pexp', 'plog', 'expcone']


def gen(rng, tier):
    Sn = int(rng.integers(2, 6))
    part = DR.random_partition(rng, Sn)
    if len(part) == 1:
        part = [[0], list(range(1, Sn))]
    atom = ATOMS[int(rng.integers(len(ATOMS)))]
    x0 = float(np.round(rng.uniform(0.3, 1.0), 2))
    if atom == 'plog':
        # s*log(x0/s) has its maximum x0/e at s = x0/e
        a0 = float(np.round((x0 / np.e) * rng.uniform(0.3, 0.8), 3))
    else:
        # s*exp(x0/s) has its minimum e*x0 at s = x0
        a0 = float(np.round(np.e * x0 * rng.uniform(1.2, 2.0), 3))
    labels = None
    if rng.random() < 0.3:
        labels = ['s%c' % (97 + i) for i in range(Sn)]
    p = rng.uniform(0.5, 1.5, Sn)
    p = np.round(p / p.sum(), 3)
    p[-1] = np.round(1 - p[:-1].sum(), 3)
    order = list(range(len(part)))
    rng.shuffle(order)
    return {'kind': 'evpersp', 'S': Sn, 'partition': part, 'order': order, 'labels': labels,
            'p': p.tolist(), 'atom': atom, 'x0': x0, 'a0': a0,
            'adaptive': 'scale' if rng.random() < 0.6 else 'rhs',
            's0': float(np.round(x0 * rng.uniform(1.5, 3.0), 2)),      # pinned scale (rhs adaptive)
            'built_before_adapt': bool(rng.random() < 0.4),
            'scale_mult': float([1.0, 2.0, 0.5][int(rng.integers(3))]),   # scale written as k*s
            'spell': int(rng.integers(2))}


def atom_value(atom, x, s):
    if atom == 'plog':
        return s * np.log(x / s)
    return s * np.exp(x / s)


def upper_root(atom, x0, a0):
    """Largest s with s*exp(x0/s) <= a0 (pexp/expcone) or s*log(x0/s) >= a0 (plog)."""
    if atom == 'plog':
        lo, hi = x0 / np.e, x0        # decreasing from the maximum to 0 at s = x0
        f = lambda s: s * np.log(x0 / s) - a0      # noqa: E731  (positive at lo)
    else:
        lo, hi = x0, 100.0            # increasing beyond the minimum
        f = lambda s: a0 - s * np.exp(x0 / s)      # noqa: E731  (positive at lo)
    for _ in range(200):
        mid = 0.5 * (lo + hi)
        if f(mid) >= 0:
            lo = mid
        else:
            hi = mid
    return lo


def run(spec, ctx):
    import rsome as rso
    import pandas as pd
    from rsome import dro
    Sn = spec['S']
    labels = spec['labels']
    atom = spec['atom']
    feats = {'class': 'evpersp', 'S': Sn, 'events': len(spec['partition']), 'atom': atom,
             'adaptive': spec['adaptive'], 'built_before_adapt': spec['built_before_adapt'],
             'labels': 'int' if labels is None else 'str', 'scale_mult': spec['scale_mult']}
    sig = '|'.join('%s=%s' % (k, feats[k]) for k in sorted(feats))
    k = spec['scale_mult']
    try:
        m = dro.Model(Sn if labels is None else labels)
        x = m.dvar()
        a = m.dvar()
        s = m.dvar()
        z = m.rvar()                 # (E() needs a random variable to exist; it is not used)
        fset = m.ambiguity()
        fset.suppset(z >= -1, z <= 1)
        fset.probset(m.p == np.array(spec['p']))
        ev = s if spec['adaptive'] == 'scale' else a

        def do_adapt():
            for bi in spec['order'][:-1]:
                blk = spec['partition'][bi]
                lab = blk if labels is None else [labels[i] for i in blk]
                ev.adapt(lab if len(lab) > 1 else lab[0])

        def make():
            sc = s if k == 1.0 else k * s
            if atom == 'pexp':
                return (rso.pexp(x, sc) <= a) if spec['spell'] == 0 else (a >= rso.pexp(x, sc))
            if atom == 'plog':
                return (rso.plog(x, sc) >= a) if spec['spell'] == 0 else (a <= rso.plog(x, sc))
            return rso.expcone(a, x, sc)

        if spec['built_before_adapt']:
            con = make()
            do_adapt()
        else:
            do_adapt()
            con = make()
        if spec['adaptive'] == 'scale':
            m.maxinf(rso.E(s), fset)
            m.st(a == spec['a0'])
            m.st(s >= 0.01, s <= 50.0)
        else:
            if atom == 'plog':
                m.maxinf(rso.E(a), fset)
            else:
                m.minsup(rso.E(a), fset)
            m.st(s == spec['s0'])
            m.st(a >= -50.0, a <= 50.0)
        m.st(con)
        m.st(x == spec['x0'])
        m.do_math()
        C.solve(m, 'eco')
    except Exception as e:
        ctx.count('evpersp_rsome_raises:%s' % type(e).__name__)
        return {'status': 'skip', 'reason': 'rsome raised: %s: %s' % (type(e).__name__, str(e)[:60])}
    if not C.optimal(m) or 'Optimal' not in str(m.solution.status) \
            or 'inaccurate' in str(m.solution.status).lower():
        st = str(getattr(m.solution, 'status', None))
        if C.definitive_failure('eco', st):
            return {'status': 'violation', 'mechanism': 'evpersp:not_solved',
                    'detail': {'what': 'feasible bounded model reported infeasible/unbounded',
                               'status': st}, 'features': feats, 'sig': sig, 'nontrivial': True}
        return {'status': 'skip', 'reason': 'not optimal: ' + st}
    ctx.count('evpersp_models_solved')

    def per_scen(v):
        g = v.get()
        out = []
        for i in range(Sn):
            lab = i if labels is None else labels[i]
            out.append(float(g.loc[lab]) if isinstance(g, pd.Series) else float(g))
        return np.array(out)

    xv, av, sv = per_scen(x), per_scen(a), per_scen(s)
    tol = 5e-4
    detail = []
    val = atom_value(atom, xv, k * sv)
    gap = (av - val) if atom == 'plog' else (val - av)
    if np.max(gap) > tol * (1 + np.abs(av).max()):
        i = int(np.argmax(gap))
        detail.append({'what': 'written constraint violated in a scenario at the returned point',
                       'scenario': i if labels is None else labels[i], 'x': float(xv[i]),
                       'scale': float(k * sv[i]), 'atom_value': float(val[i]), 'other_side': float(av[i])})
    # exactness: the pushed quantity sits on the boundary in every scenario
    if spec['adaptive'] == 'scale':
        want = upper_root(atom, spec['x0'], spec['a0']) / k
        got = sv
    else:
        want = float(atom_value(atom, spec['x0'], k * spec['s0']))
        got = av
    if np.max(np.abs(got - want)) > 2e-3 * (1 + abs(want)):
        i = int(np.argmax(np.abs(got - want)))
        detail.append({'what': 'event-wise value differs from the closed form',
                       'scenario': i if labels is None else labels[i], 'returned': float(got[i]),
                       'closed_form': float(want)})
    if detail:
        return {'status': 'violation', 'mechanism': 'evpersp:%s:%s' % (atom, detail[0]['what'][:40]),
                'detail': detail[:3], 'features': feats, 'sig': sig, 'nontrivial': True}
    return {'status': 'held', 'features': feats, 'sig': sig, 'nontrivial': True,
            'observed': {'value': float(m.get()), 'closed_form': float(want)}}
