"""Child process for the two-process determinism experiment: reads a source spec
(JSON) on stdin, builds it, prints the fingerprints of primal and dual."""
import json
import os
import sys
import warnings

warnings.filterwarnings('ignore')


def main():
    src = json.load(sys.stdin)
    saved = os.dup(1)
    os.dup2(os.open(os.devnull, os.O_WRONLY), 1)
    from rv import source as SRC
    from rv import common as C
    B = SRC.build(src, variant=src.get('variant'))
    fp = C.fingerprint(B.model.do_math())
    try:
        fd = C.fingerprint(B.model.do_math(primal=False))
    except Exception as e:
        fd = 'raised:' + type(e).__name__
    os.write(saved, (json.dumps({'primal': fp, 'dual': fd}) + '\n').encode())


if __name__ == '__main__':
    main()
