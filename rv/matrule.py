"""Matrix-shaped decision rules in robust constraints (ro front end).

  y = ldr((a, b)),  entries adapt to declared components of z in a box (some bounds exactly zero)
  minmax  sum(W * y)   s.t.   y >= C.z + D  (entry-wise, for all z)   in several array spellings
                               (y.T, rows, columns, negated, difference transposed, ...)

Feasibility oracle (C01): the returned y.get() / y.get(z) are substituted into
y0 + Y.z >= C.z + D at every vertex of the box, entry by entry, in NumPy; the reported objective
must bound sum(W*(y0 + Y.z)) at every vertex.  Exactness oracle (C02): every entry decouples,
y_ij(z) = D_ij + sum_{k allowed} C_ijk z_k + sum_{k not allowed} |C_ijk|, and the optimum is
sum_ij W_ij (D_ij + sum_{k not allowed} |C_ijk|) + max_z sum_k (sum_ij W_ij C_ijk [k allowed]) z_k."""
import itertools

import numpy as np

from rv import common as C

SPELL = ['plain', 'T', 'rows', 'cols', 'neg', 'diffT', 'Tneg', 'entries']


def gen(rng, tier):
    a, b = int(rng.integers(2, 4)), int(rng.integers(2, 4))
    if a == b and rng.random() < 0.7:
        b = a + 1 if a < 3 else a - 1
    nz = int(rng.integers(2, 4))
    mask = np.ones((a, b, nz), int) if rng.random() < 0.4 else (rng.random((a, b, nz)) < 0.6).astype(int)
    # the box: [-1, 1] per component, or one-sided with a bound that is exactly zero
    lo, hi = -np.ones(nz), np.ones(nz)
    for k in range(nz):
        r = rng.random()
        if r < 0.25:
            lo[k] = 0.0
        elif r < 0.5:
            hi[k] = 0.0
        elif r < 0.58 and nz >= 2:
            lo[k] = hi[k] = 0.0           # a component fixed at zero by coinciding bounds
    return {'kind': 'matrule', 'a': a, 'b': b, 'nz': nz, 'mask': mask.tolist(),
            'lo': lo.tolist(), 'hi': hi.tolist(), 'set_form': int(rng.integers(3)),
            'C': np.round(rng.uniform(-2, 2, (a, b, nz)), 1).tolist(),
            'D': np.round(rng.uniform(-1, 1, (a, b)), 1).tolist(),
            'W': np.round(rng.uniform(0.5, 2, (a, b)), 1).tolist(),
            'spell': SPELL[int(rng.integers(len(SPELL)))],
            'adapt_how': int(rng.integers(3)), 'late_rvar': bool(rng.random() < 0.35),
            # the random variables declared in two blocks, the second one after a set with
            # auxiliary columns (a 1-norm ball on the first block) was compiled
            'split_z': int(rng.integers(1, nz)) if rng.random() < 0.45 else 0,
            'static_only': bool(rng.random() < 0.6),      # (with split_z and static_row: no rule)
            # a static variable s >= g.z (no rule in the row), added to the objective
            'static_row': np.round(rng.uniform(-2, 2, nz), 1).tolist() if rng.random() < 0.5 else None}


def closed_form(spec):
    Cc = np.array(spec['C'], float)
    D = np.array(spec['D'], float)
    W = np.array(spec['W'], float)
    mk = np.array(spec['mask'])
    lo, hi = np.array(spec.get('lo', [-1.0] * spec['nz'])), np.array(spec.get('hi', [1.0] * spec['nz']))
    wc = np.maximum(Cc * lo, Cc * hi)                 # worst case of C_ijk z_k over [lo_k, hi_k]
    const = float((W * (D + (wc * (1 - mk)).sum(axis=2))).sum())
    g = (W[:, :, None] * Cc * mk).sum(axis=(0, 1))
    out = const + float(np.maximum(g * lo, g * hi).sum())
    if spec.get('static_row'):
        gs = np.array(spec['static_row'], float)
        out += float(np.maximum(gs * lo, gs * hi).sum())
    return out


def _run_static(spec, ctx, exact):
    """No rule at all: static rows  s0 >= g.z  and  s1 >= (h*x).z  (x pinned), random variables in
    two blocks with a compiled norm set in between."""
    import rsome as rso
    from rsome import ro
    nz, nsp = spec['nz'], int(spec['split_z'])
    g = np.array(spec['static_row'], float)
    h = np.array(spec['C'], float)[0, 0, :]
    xp = float(spec['D'][0][0]) + 1.5
    lo, hi = np.array(spec['lo']), np.array(spec['hi'])
    feats = {'class': 'matrule-static', 'nz': nz, 'split': nsp, 'set_form': spec.get('set_form', 0),
             'spell': spec['spell']}
    sig = '|'.join('%s=%s' % (k, feats[k]) for k in sorted(feats))
    try:
        m = ro.Model()
        z1 = m.rvar(nsp)
        x = m.dvar()
        (x + z1.sum() <= 7.0).forall(rso.norm(z1, 1) <= 1.0)        # compiled, never added
        z2 = m.rvar(nz - nsp)
        sv = m.dvar(2)
        if spec.get('set_form', 0) == 1:
            zl = [z1[k] for k in range(nsp)] + [z2[k] for k in range(nz - nsp)]
            uset = [zl[k] >= float(lo[k]) for k in range(nz)] + [zl[k] <= float(hi[k]) for k in range(nz)]
        else:
            uset = [z1 >= lo[:nsp], z1 <= hi[:nsp], -z2 <= -lo[nsp:], hi[nsp:] >= z2]
        r0 = g[:nsp] @ z1 + g[nsp:] @ z2
        if spec['spell'] in ('plain', 'rows', 'cols', 'entries'):
            r1 = (h[:nsp] * x) @ z1 + x * (h[nsp:] @ z2)
        else:
            r1 = (h[:nsp] @ z1) * x + (z2 * h[nsp:]).sum() * x
        m.minmax(sv.sum(), uset)
        m.st(sv[0] >= r0, sv[1] >= r1, x == xp)
        m.do_math()
        C.solve(m, 'def')
    except Exception as e:
        ctx.count('matrule_static_rsome_raises:%s' % type(e).__name__)
        return {'status': 'skip', 'reason': 'rsome raised: %s: %s' % (type(e).__name__, str(e)[:60])}
    if not C.optimal(m):
        st = str(getattr(m.solution, 'status', None))
        if C.definitive_failure('def', st):
            return {'status': 'violation', 'mechanism': 'matrule:status_mismatch',
                    'detail': {'what': 'feasible bounded model reported infeasible/unbounded',
                               'status': st}, 'features': feats, 'sig': sig, 'nontrivial': True}
        return {'status': 'skip', 'reason': 'not optimal'}
    ctx.count('matrule_static_models_solved')
    s_ = np.asarray(sv.get(), float).reshape(2)
    w0 = float(np.maximum(g * lo, g * hi).sum())
    w1 = float(np.maximum(h * xp * lo, h * xp * hi).sum())
    val = float(m.get())
    tol = 1e-6 * (1 + abs(w0) + abs(w1))
    detail = []
    if s_[0] < w0 - tol or s_[1] < w1 - tol:
        detail.append({'what': 'robust row violated', 'entry': 'static rows', 's': s_.tolist(),
                       'worst_case_of_the_right_hand_sides': [w0, w1]})
    if val < w0 + w1 - tol:
        detail.append({'what': 'reported optimum is below the least attainable value',
                       'reported': val, 'attainable': w0 + w1})
    elif exact and val > w0 + w1 + tol:
        detail.append({'what': 'optimum differs from the closed form', 'reported': val,
                       'closed_form': w0 + w1})
    if detail:
        return {'status': 'violation', 'mechanism': 'matrule:' + detail[0]['what'][:40],
                'detail': detail[:3], 'features': feats, 'sig': sig, 'nontrivial': True}
    return {'status': 'held', 'features': feats, 'sig': sig, 'nontrivial': True,
            'observed': {'value': val, 'closed_form': w0 + w1}}


def run(spec, ctx, exact=False):
    import rsome as rso
    from rsome import ro
    if spec.get('split_z') and spec.get('static_row') and spec.get('static_only'):
        return _run_static(spec, ctx, exact)
    a, b, nz = spec['a'], spec['b'], spec['nz']
    Cc = np.array(spec['C'], float)
    D = np.array(spec['D'], float)
    W = np.array(spec['W'], float)
    mk = np.array(spec['mask'])
    feats = {'class': 'matrule', 'shape': '%dx%d' % (a, b), 'nz': nz, 'spell': spec['spell'],
             'mask': 'full' if mk.all() else 'partial', 'adapt_how': spec['adapt_how'],
             'late_rvar': spec['late_rvar'], 'split_z': bool(spec.get('split_z')),
             'static_row': bool(spec.get('static_row'))}
    sig = '|'.join('%s=%s' % (k, feats[k]) for k in sorted(feats))
    try:
        m = ro.Model()
        nsp = int(spec.get('split_z', 0))
        if nsp:
            z1 = m.rvar(nsp)
            x0 = m.dvar()
            (x0 + z1.sum() <= 7.0).forall(rso.norm(z1, 1) <= 1.0)    # compiled, never added
            z2 = m.rvar(nz - nsp)
            zblocks = [z1, z2]
            z = [z1[k] for k in range(nsp)] + [z2[k] for k in range(nz - nsp)]
        else:
            z = m.rvar(nz)
            zblocks = [z]
        y = m.ldr((a, b))
        how = spec['adapt_how']
        late_done = [not spec['late_rvar']]
        ncalls = [0]
        late_at = 1 + (int(Cc.size) % 5)          # the late rvar comes after this many adapt() calls

        def adapted():
            ncalls[0] += 1
            if not late_done[0] and ncalls[0] == late_at:
                m.rvar(2)
                late_done[0] = True

        if mk.all() and how == 0:
            for zb in zblocks:
                y.adapt(zb)
                adapted()
        else:
            for i in range(a):
                for j in range(b):
                    ks = [k for k in range(nz) if mk[i, j, k]]
                    if not ks:
                        continue
                    if how == 1 and len(ks) == nz:
                        for zb in zblocks:
                            y[i, j].adapt(zb)
                            adapted()
                    else:
                        for k in ks:
                            y[i, j].adapt(z[k])
                            adapted()
        if not late_done[0]:
            m.rvar(2)
        lo, hi = np.array(spec.get('lo', [-1.0] * nz)), np.array(spec.get('hi', [1.0] * nz))
        sf = spec.get('set_form', 0)
        if sf == 1 or nsp:
            uset = [z[k] >= float(lo[k]) for k in range(nz)] + [z[k] <= float(hi[k]) for k in range(nz)]
            if nsp and sf != 1:
                uset = [z1 >= lo[:nsp], z1 <= hi[:nsp], -z2 <= -lo[nsp:], hi[nsp:] >= z2]
        elif sf == 0:
            uset = (z >= lo, z <= hi)
        else:
            uset = (-z <= -lo, hi >= z)
        rhs = D
        for k in range(nz):
            rhs = rhs + Cc[:, :, k] * z[k]
        sp_ = spec['spell']
        if sp_ == 'plain':
            cons = [y >= rhs]
        elif sp_ == 'T':
            cons = [y.T >= rhs.T]
        elif sp_ == 'rows':
            cons = [y[i] >= rhs[i] for i in range(a)]
        elif sp_ == 'cols':
            cons = [y[:, j] >= rhs[:, j] for j in range(b)]
        elif sp_ == 'neg':
            cons = [-y <= -rhs]
        elif sp_ == 'diffT':
            cons = [(y - rhs).T >= 0]
        elif sp_ == 'Tneg':
            cons = [-(y.T) <= -(rhs.T)]
        else:
            cons = [y[i, j] >= rhs[i, j] for i in range(a) for j in range(b)]
        sv = None
        if spec.get('static_row'):
            gs = np.array(spec['static_row'], float)
            sv = m.dvar()
            srow = gs[0] * z[0]
            for k in range(1, nz):
                srow = srow + gs[k] * z[k]
            cons = cons + [sv >= srow]
            m.minmax((W * y).sum() + sv, uset)
        else:
            m.minmax((W * y).sum(), uset)
        m.st(cons)
        m.st(y <= 50, y >= -50)
        m.do_math()
        C.solve(m, 'def')
    except Exception as e:
        ctx.count('matrule_rsome_raises:%s:%s' % (spec['spell'], type(e).__name__))
        return {'status': 'skip', 'reason': 'rsome raised: %s: %s' % (type(e).__name__, str(e)[:60])}
    if not C.optimal(m):
        st = str(getattr(m.solution, 'status', None))
        if C.definitive_failure('def', st):
            return {'status': 'violation', 'mechanism': 'matrule:status_mismatch',
                    'detail': {'what': 'feasible bounded model reported infeasible/unbounded',
                               'status': st}, 'features': feats, 'sig': sig, 'nontrivial': True}
        return {'status': 'skip', 'reason': 'not optimal'}
    ctx.count('matrule_models_solved')
    y0 = np.asarray(y.get(), float).reshape(a, b)
    Y = np.concatenate([np.nan_to_num(np.asarray(y.get(zb), float).reshape(a, b, -1), nan=0.0)
                        for zb in zblocks], axis=2)
    val = float(m.get())
    tol = 1e-6 * (1 + np.abs(Cc).sum() + np.abs(D).max())
    detail = []
    worst_obj = -np.inf
    lo, hi = np.array(spec.get('lo', [-1.0] * nz)), np.array(spec.get('hi', [1.0] * nz))
    s_val = float(sv.get()) if sv is not None else 0.0
    for v in itertools.product(*zip(lo, hi)):
        zv = np.array(v)
        if sv is not None and float(np.array(spec['static_row']) @ zv) > s_val + tol and not detail:
            detail.append({'what': 'robust row violated', 'entry': 'static row s >= g.z',
                           'z': zv.tolist(), 's': s_val,
                           'needed': float(np.array(spec['static_row']) @ zv)})
        yv = y0 + Y @ zv
        need = D + Cc @ zv
        gap = need - yv
        if gap.max() > tol and not detail:
            i, j = np.unravel_index(np.argmax(gap), gap.shape)
            detail.append({'what': 'robust row violated', 'entry': [int(i), int(j)],
                           'z': zv.tolist(), 'y': float(yv[i, j]), 'needed': float(need[i, j])})
        worst_obj = max(worst_obj, float((W * yv).sum()) + s_val)
    if worst_obj > val + 1e-6 * (1 + abs(val)):
        detail.append({'what': 'reported objective is not a bound on the objective',
                       'reported': val, 'worst_case': worst_obj})
    want = closed_form(spec)
    if exact and abs(val - want) > 1e-6 * (1 + abs(want)):
        detail.append({'what': 'optimum differs from the closed form', 'reported': val,
                       'closed_form': want})
    elif not exact and val < want - 1e-6 * (1 + abs(want)):
        detail.append({'what': 'reported optimum is below the least attainable value',
                       'reported': val, 'attainable': want})
    if detail:
        return {'status': 'violation', 'mechanism': 'matrule:' + detail[0]['what'][:40],
                'detail': detail[:3], 'features': feats, 'sig': sig, 'nontrivial': True}
    return {'status': 'held', 'features': feats, 'sig': sig, 'nontrivial': True,
            'observed': {'value': val, 'closed_form': want}}
