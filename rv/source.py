"""Sources of compiled programs for the program-level monitors (C08, C11, C14,
C16, C19): deterministic LP/MILP with all bound patterns, box-bounded conic
models over all atoms, robust counterparts of random ro models."""
import numpy as np

from rv import detmodel as D
from rv import romodel as R
from rv import dromodel as DR

HAS_DRO = True


def gen(rng, tier, kinds=None, ints=True, outcomes=('optimal',)):
    kinds = kinds or ['lp', 'lp', 'milp', 'conic', 'conic', 'ro', 'ro']
    kind = kinds[int(rng.integers(len(kinds)))]
    outcome = outcomes[int(rng.integers(len(outcomes)))]
    if kind == 'lp':
        spec = D.gen_lp(rng, tier, ints=False, outcome=outcome)
    elif kind == 'milp':
        spec = D.gen_lp(rng, tier, ints=True, outcome=outcome)
    elif kind == 'conic':
        cones = ['LQ', 'Q', 'LQX', 'X'][int(rng.integers(4))]
        spec = D.gen(rng, tier, cones=cones, ints=ints and rng.random() < 0.2)
        spec['outcome'] = 'optimal'
    elif kind == 'msplit':
        # market-split type MILP: small but needs thousands of branch-and-bound nodes
        n = int(rng.integers(14, 18))
        A = rng.integers(0, 100, (2, n))
        spec = {'n': n, 'A': A.tolist(), 'd': (A.sum(axis=1) // 2).tolist(), 'outcome': 'optimal',
                'spell': int(rng.integers(1 << 30))}
    elif kind == 'bknap':
        # bounded binary programs (knapsack rows, user bounds on some binaries that switch them
        # off or force them in, optionally continuous variables in a second-order cone): small
        # enough for every interface including ECOS' branch and bound
        n = int(rng.integers(4, 9))
        spec = {'n': n, 'val': rng.integers(1, 12, n).tolist(),
                'w': rng.integers(1, 9, (int(rng.integers(1, 3)), n)).tolist(),
                'sense': ['max', 'min'][int(rng.random() < 0.3)],
                'ub': {}, 'lb': {}, 'soc': bool(rng.random() < 0.35),
                'style': int(rng.integers(3)), 'outcome': 'optimal',
                'spell': int(rng.integers(1 << 30))}
        spec['cap'] = [int(max(3, 0.5 * sum(r))) for r in spec['w']]
        for i in range(n):
            r = rng.random()
            if r < 0.2:
                spec['ub'][str(i)] = [0.0, 0.0, 0.5, 0.99][int(rng.integers(4))]
            elif r < 0.35:
                spec['lb'][str(i)] = [1.0, 1.0, 0.5, 0.01][int(rng.integers(4))]
        # keep it feasible: forced items must fit
        for k, row in enumerate(spec['w']):
            need = sum(row[int(i)] for i in spec['lb'])
            spec['cap'][k] = max(spec['cap'][k], need)
    elif kind == 'ro_as_dro':
        # an ro spec built as a single-scenario dro model (own sets become forall(list) on dro
        # robust constraints)
        spec = R.gen(rng, tier)
        spec['outcome'] = 'optimal'
    elif kind == 'dro':
        spec = DR.gen(rng, tier)
        spec['outcome'] = 'optimal'
    else:
        spec = R.gen(rng, tier)
        spec['outcome'] = 'optimal'
    return {'kind': kind, 'spec': spec}


class _B:
    pass


def build_msplit(spec):
    from rsome import ro
    m = ro.Model()
    x = m.dvar(spec['n'], 'B')
    sp = m.dvar(2)
    sn = m.dvar(2)
    A = np.array(spec['A'], float)
    m.min(sp.sum() + sn.sum())
    m.st(A @ x + sp - sn == np.array(spec['d'], float))
    m.st(sp >= 0, sn >= 0)
    B = _B()
    B.model = m
    B.xs = [x, sp, sn]
    B.arrays = []
    B.digests = []
    return B


def build_bknap(spec):
    import rsome as rso
    from rsome import ro
    m = ro.Model()
    n = spec['n']
    x = m.dvar(n, 'B')
    val = np.array(spec['val'], float)
    xs = [x]
    obj = val @ x
    if spec['soc']:
        y = m.dvar(2)
        xs.append(y)
        m.st(rso.sumsqr(y) <= 2.0)
        obj = obj + (y[0] + 0.5 * y[1] if spec['sense'] == 'max' else -y[0] - 0.5 * y[1])
    if spec['sense'] == 'max':
        m.max(obj)
        for row, cap in zip(spec['w'], spec['cap']):
            m.st(np.array(row, float) @ x <= float(cap))
    else:
        m.min(obj)
        for row, cap in zip(spec['w'], spec['cap']):
            m.st(np.array(row, float) @ x >= float(min(cap, sum(row)) // 2))
    st = spec['style']
    if st == 2 and (spec['ub'] or spec['lb']):
        ub = np.ones(n)
        lb = np.zeros(n)
        for i, b in spec['ub'].items():
            ub[int(i)] = b
        for i, b in spec['lb'].items():
            lb[int(i)] = b
        m.st(x <= ub, x >= lb)                  # whole-variable bound objects
    else:
        for i, b in spec['ub'].items():
            m.st(x[int(i)] <= b) if st == 0 else m.st(1.0 * x[int(i)] <= b)
        for i, b in spec['lb'].items():
            m.st(x[int(i)] >= b) if st == 0 else m.st(1.0 * x[int(i)] >= b)
    B = _B()
    B.model = m
    B.xs = xs
    B.arrays = []
    B.digests = []
    return B


def build(src, variant=None):
    if src['kind'] == 'msplit':
        return build_msplit(src['spec'])
    if src['kind'] == 'bknap':
        return build_bknap(src['spec'])
    if src['kind'] in ('lp', 'milp', 'conic'):
        return D.build(src['spec'], variant)
    if src['kind'] == 'dro':
        return DR.build(src['spec'], variant=variant)
    if src['kind'] == 'ro_as_dro':
        return R.build_dro_single(src['spec'], variant)
    return R.build(src['spec'], variant=variant)
