"""Sources of compiled programs for the program-level monitors (C08, C11, C14,
C16, C19): deterministic LP/MILP with all bound patterns, box-bounded conic
models over all atoms, robust counterparts of random ro models."""
import numpy as np

from rv import detmodel as D
from rv import romodel as R
from rv import dromodel as DR

HAS_DRO = True


def gen(rng, tier, kinds=None, ints=True, outcomes=('optimal',)):
    kinds = kinds or ['lp', 'lp', 'milp', 'conic', 'conic', 'ro', 'ro']
    kind = kinds[int(rng.integers(len(kinds)))]
    outcome = outcomes[int(rng.integers(len(outcomes)))]
    if kind == 'lp':
        spec = D.gen_lp(rng, tier, ints=False, outcome=outcome)
    elif kind == 'milp':
        spec = D.gen_lp(rng, tier, ints=True, outcome=outcome)
    elif kind == 'conic':
        cones = ['LQ', 'Q', 'LQX', 'X'][int(rng.integers(4))]
        spec = D.gen(rng, tier, cones=cones, ints=ints and rng.random() < 0.2)
        spec['outcome'] = 'optimal'
    elif kind == 'msplit':
        # market-split type MILP: small but needs thousands of branch-and-bound nodes
        n = int(rng.integers(14, 18))
        A = rng.integers(0, 100, (2, n))
        spec = {'n': n, 'A': A.tolist(), 'd': (A.sum(axis=1) // 2).tolist(), 'outcome': 'optimal',
                'spell': int(rng.integers(1 << 30))}
    elif kind == 'dro':
        spec = DR.gen(rng, tier)
        spec['outcome'] = 'optimal'
    else:
        spec = R.gen(rng, tier)
        spec['outcome'] = 'optimal'
    return {'kind': kind, 'spec': spec}


class _B:
    pass


def build_msplit(spec):
    from rsome import ro
    m = ro.Model()
    x = m.dvar(spec['n'], 'B')
    sp = m.dvar(2)
    sn = m.dvar(2)
    A = np.array(spec['A'], float)
    m.min(sp.sum() + sn.sum())
    m.st(A @ x + sp - sn == np.array(spec['d'], float))
    m.st(sp >= 0, sn >= 0)
    B = _B()
    B.model = m
    B.xs = [x, sp, sn]
    B.arrays = []
    B.digests = []
    return B


def build(src, variant=None):
    if src['kind'] == 'msplit':
        return build_msplit(src['spec'])
    if src['kind'] in ('lp', 'milp', 'conic'):
        return D.build(src['spec'], variant)
    if src['kind'] == 'dro':
        return DR.build(src['spec'], variant=variant)
    return R.build(src['spec'], variant=variant)
